//! C03 -- optimise-and-extract returns an equivalent circuit over the basic gate set
//! (library and CLI).
//!
//! Library: for unitary circuits c, strategy S in {flow_simp, clifford_simp, full_simp},
//! extractor X in {gflow, gflow_simple_gauss, gflow+up_to_perm} (+ flow() after flow_simp),
//! both backends: g = c.to_graph(); S(g); r = Extractor(g).X.extract(). Oracle: r is Ok;
//! same qubit count; gates only HAD/ZPhase/CZ/CNOT/SWAP; U(r) proportional to U(c)
//! (independent simulator O3; exact cross-multiplication for pi/4 phases); for up_to_perm
//! there must exist a permutation P of the input qubits with U(r) P proportional to U(c).
//! CLI: `quizx opt` on QASM written by the harness's own printer; exit 0, no panic text,
//! stdout parsed by an independent mini-parser AND by Circuit::from_qasm, both must denote
//! a map proportional to U(c).

use crate::fw::{ctx, guarded, par_cases};
use crate::gen::circuit::*;
use crate::oracle::eval::{proportional_exact, proportional_float};
use crate::oracle::ring::{Cf, R};
use crate::oracle::sim::{tensor_exact, tensor_float, Circ, G};
use quizx::circuit::Circuit;
use quizx::extract::{ExtractError, Extractor};
use quizx::gate::GType;
use quizx::graph::GraphLike;
use serde_json::json;
use std::process::Command;
use std::time::{Duration, Instant};

pub const STRATS: [&str; 3] = ["flow_simp", "clifford_simp", "full_simp"];
pub const EXTRS: [&str; 4] = ["gflow", "gflow_simple_gauss", "gflow_up_to_perm", "flow"];

fn simp<Gr: GraphLike>(s: &str, g: &mut Gr) {
    match s {
        "flow_simp" => {
            quizx::simplify::flow_simp(g);
        }
        "clifford_simp" => {
            quizx::simplify::clifford_simp(g);
        }
        "full_simp" => {
            quizx::simplify::full_simp(g);
        }
        _ => unreachable!(),
    }
}

fn extract<Gr: GraphLike>(x: &str, g: &mut Gr) -> Result<Circuit, ExtractError<Gr>> {
    let mut e = Extractor::new(g);
    match x {
        "gflow" => e.gflow().extract(),
        "gflow_simple_gauss" => e.gflow_simple_gauss().extract(),
        "gflow_up_to_perm" => e.gflow().up_to_perm().extract(),
        "flow" => e.flow().extract(),
        _ => unreachable!(),
    }
}

enum Ref {
    Exact(Vec<R>),
    Float(Vec<Cf>),
}

fn reference(c: &Circ) -> Ref {
    if c.is_pi4() {
        Ref::Exact(tensor_exact(c).0)
    } else {
        Ref::Float(tensor_float(c).0)
    }
}

fn permute_inputs<T: Clone>(t: &[T], n: usize, perm: &[usize]) -> Vec<T> {
    // new input qubit perm[q] carries what was input qubit q
    let mut out = t.to_vec();
    for i in 0..(1usize << n) {
        let mut j = 0usize;
        for q in 0..n {
            if (i >> (n - 1 - q)) & 1 == 1 {
                j |= 1 << (n - 1 - perm[q]);
            }
        }
        for o in 0..(1usize << n) {
            out[(j << n) | o] = t[(i << n) | o].clone();
        }
    }
    out
}

fn perms(n: usize) -> Vec<Vec<usize>> {
    fn rec(cur: &mut Vec<usize>, used: &mut Vec<bool>, n: usize, out: &mut Vec<Vec<usize>>) {
        if cur.len() == n {
            out.push(cur.clone());
            return;
        }
        for i in 0..n {
            if !used[i] {
                used[i] = true;
                cur.push(i);
                rec(cur, used, n, out);
                cur.pop();
                used[i] = false;
            }
        }
    }
    let mut out = vec![];
    rec(&mut vec![], &mut vec![false; n], n, &mut out);
    out
}

/// Is `got` (a harness circuit) proportional to the reference? With `any_perm`, up to a
/// permutation of the input qubits. Returns Ok(Some(perm is identity?)) or Ok(None).
/// Candidate input permutations for "U(got) P proportional to U(ref)": for few qubits all
/// of them; for many qubits the permutation is read off the single-excitation columns (the
/// column of the reference for input e_q must be proportional to the column of `got` for
/// input e_{pi(q)}), which leaves one candidate unless columns are degenerate.
fn candidate_perms<T>(t: &[T], e: &[T], n: usize, prop: &dyn Fn(&[T], &[T]) -> bool) -> Vec<Vec<usize>> {
    if n <= 5 {
        return perms(n);
    }
    let dim = 1usize << n;
    let col = |m: &[T], q: usize| -> std::ops::Range<usize> {
        let i = 1usize << (n - 1 - q);
        (i * dim)..((i + 1) * dim)
    };
    let _ = t.len();
    // new input qubit perm[q] of `got` carries what was input qubit q of the reference:
    // permute_inputs(t, perm)[e_{perm[q]}] = t[e_q]  must be ~ e[e_{perm[q]}]
    let mut cands: Vec<Vec<usize>> = vec![vec![]];
    for q in 0..n {
        let mut next = vec![];
        for p in 0..n {
            if prop(&t[col(t, q)], &e[col(e, p)]) {
                for c in &cands {
                    if !c.contains(&p) {
                        let mut c2 = c.clone();
                        c2.push(p);
                        next.push(c2);
                    }
                }
            }
        }
        next.truncate(64);
        cands = next;
        if cands.is_empty() {
            break;
        }
    }
    cands
}

fn equivalent(got: &Circ, reference_: &Ref, n: usize, any_perm: bool, float_tol: f64) -> Option<bool> {
    let ps: Vec<Vec<usize>> = if !any_perm {
        vec![(0..n).collect()]
    } else if n <= 5 {
        perms(n)
    } else {
        match reference_ {
            Ref::Exact(e) if got.is_pi4() => {
                let t = tensor_exact(got).0;
                candidate_perms(&t, e, n, &|a: &[R], b: &[R]| proportional_exact(a, b) && !a.iter().all(|x| crate::oracle::ring::Num::is_zero(x)))
            }
            _ => {
                let e: Vec<Cf> = match reference_ {
                    Ref::Exact(e) => e.iter().map(|r| r.to_cf()).collect(),
                    Ref::Float(e) => e.clone(),
                };
                let t = tensor_float(got).0;
                candidate_perms(&t, &e, n, &|a: &[Cf], b: &[Cf]| proportional_float(a, b, float_tol.max(1e-7)))
            }
        }
    };
    match reference_ {
        Ref::Exact(e) if got.is_pi4() => {
            let t = tensor_exact(got).0;
            for p in ps {
                let tp = permute_inputs(&t, n, &p);
                if proportional_exact(&tp, e) && !tp.iter().all(|x| crate::oracle::ring::Num::is_zero(x)) {
                    return Some(p.iter().enumerate().all(|(i, &x)| i == x));
                }
            }
            None
        }
        _ => {
            let e: Vec<Cf> = match reference_ {
                Ref::Exact(e) => e.iter().map(|r| r.to_cf()).collect(),
                Ref::Float(e) => e.clone(),
            };
            let t = tensor_float(got).0;
            for p in ps {
                let tp = permute_inputs(&t, n, &p);
                if proportional_float(&tp, &e, float_tol) && tp.iter().any(|x| x.norm() > 1e-9) {
                    return Some(p.iter().enumerate().all(|(i, &x)| i == x));
                }
            }
            None
        }
    }
}

fn check_lib<Gr: GraphLike>(family: &'static str, index: u64, backend: &str, c: &Circ, rf: &Ref) {
    let cx = ctx();
    let qc = crate::gen::circuit::to_quizx_layout(c);
    for s in STRATS {
        for x in EXTRS {
            if x == "flow" && s != "flow_simp" {
                continue;
            }
            cx.count(&format!("config:{s}+{x}:{backend}"), 1);
            let detail = |what: &str, extra: serde_json::Value| {
                json!({"what": what, "strategy": s, "extractor": x, "backend": backend, "circuit": circ_json(c), "qasm": print_qasm(c), "extra": extra})
            };
            let r = guarded(|| {
                let mut g: Gr = qc.to_graph();
                simp(s, &mut g);
                extract(x, &mut g).map_err(|e| e.0)
            });
            let out = match r {
                Err(e) => {
                    cx.violation(&format!("{s}+{x}|panic|{}", e.site()), family, index, detail("panic", json!(e.text())));
                    continue;
                }
                Ok(Err(msg)) => {
                    cx.violation(&format!("{s}+{x}|extraction-failed"), family, index, detail("extraction returned Err", json!(msg)));
                    continue;
                }
                Ok(Ok(c1)) => c1,
            };
            if out.num_qubits() != c.n {
                cx.violation(&format!("{s}+{x}|qubit-count"), family, index, detail("different qubit count", json!({"got": out.num_qubits()})));
                continue;
            }
            let mut bad_gate = None;
            for g in out.gates.iter() {
                match g.t {
                    GType::HAD | GType::ZPhase | GType::CZ | GType::CNOT | GType::SWAP => {}
                    other => bad_gate = Some(format!("{other:?}")),
                }
                cx.count(&format!("emitted:{:?}", g.t), 1);
            }
            if let Some(bg) = bad_gate {
                cx.violation(&format!("{s}+{x}|non-basic-gate|{bg}"), family, index, detail("gate outside {H,ZPhase,CZ,CNOT,SWAP}", json!({"gate": bg, "out": out.to_string()})));
                continue;
            }
            let hc = match from_quizx(&out) {
                Ok(h) => h,
                Err(e) => {
                    cx.violation(&format!("{s}+{x}|malformed-circuit"), family, index, detail("extracted circuit malformed", json!({"why": e, "out": out.to_string()})));
                    continue;
                }
            };
            let any_perm = x == "gflow_up_to_perm";
            match equivalent(&hc, rf, c.n, any_perm, 1e-7) {
                Some(identity) => {
                    if any_perm && !identity {
                        cx.count("up_to_perm:nontrivial-permutation", 1);
                    }
                }
                None => {
                    cx.violation(
                        &format!("{s}+{x}|not-equivalent"),
                        family,
                        index,
                        detail("extracted circuit is not proportional to the input", json!({"out": out.to_string()})),
                    );
                }
            }
        }
    }
}

// ---------------------------------------------------------------------------------
// O4: independent mini parser for the QASM text Circuit::to_qasm emits
// ---------------------------------------------------------------------------------

/// value (in radians) of an OpenQASM parameter expression: numbers, `pi`, + - * /, unary
/// minus, parentheses
pub fn eval_angle(src: &str) -> Result<f64, String> {
    struct P<'a> {
        b: &'a [u8],
        i: usize,
    }
    impl<'a> P<'a> {
        fn ws(&mut self) {
            while self.i < self.b.len() && (self.b[self.i] as char).is_whitespace() {
                self.i += 1;
            }
        }
        fn expr(&mut self) -> Result<f64, String> {
            let mut v = self.term()?;
            loop {
                self.ws();
                match self.b.get(self.i) {
                    Some(b'+') => {
                        self.i += 1;
                        v += self.term()?;
                    }
                    Some(b'-') => {
                        self.i += 1;
                        v -= self.term()?;
                    }
                    _ => return Ok(v),
                }
            }
        }
        fn term(&mut self) -> Result<f64, String> {
            let mut v = self.factor()?;
            loop {
                self.ws();
                match self.b.get(self.i) {
                    Some(b'*') => {
                        self.i += 1;
                        v *= self.factor()?;
                    }
                    Some(b'/') => {
                        self.i += 1;
                        v /= self.factor()?;
                    }
                    _ => return Ok(v),
                }
            }
        }
        fn factor(&mut self) -> Result<f64, String> {
            self.ws();
            match self.b.get(self.i) {
                Some(b'-') => {
                    self.i += 1;
                    Ok(-self.factor()?)
                }
                Some(b'+') => {
                    self.i += 1;
                    self.factor()
                }
                Some(b'(') => {
                    self.i += 1;
                    let v = self.expr()?;
                    self.ws();
                    if self.b.get(self.i) != Some(&b')') {
                        return Err("missing )".into());
                    }
                    self.i += 1;
                    Ok(v)
                }
                Some(c) if c.is_ascii_digit() || *c == b'.' => {
                    let st = self.i;
                    while self.i < self.b.len() && (self.b[self.i].is_ascii_digit() || matches!(self.b[self.i], b'.' | b'e' | b'E') || (matches!(self.b[self.i], b'-' | b'+') && matches!(self.b[self.i - 1], b'e' | b'E'))) {
                        self.i += 1;
                    }
                    std::str::from_utf8(&self.b[st..self.i]).unwrap().parse::<f64>().map_err(|e| e.to_string())
                }
                Some(b'p') if self.b[self.i..].starts_with(b"pi") => {
                    self.i += 2;
                    Ok(std::f64::consts::PI)
                }
                other => Err(format!("unexpected {:?} in angle expression", other.map(|c| *c as char))),
            }
        }
    }
    let mut p = P { b: src.as_bytes(), i: 0 };
    let v = p.expr()?;
    p.ws();
    if p.i != p.b.len() {
        return Err(format!("trailing input in angle expression '{src}'"));
    }
    Ok(v)
}

pub fn parse_qasm_lite(txt: &str) -> Result<Circ, String> {
    let mut n: Option<usize> = None;
    let mut gates = vec![];
    // line comments are not statements (layout and comments are the printer's business)
    let txt: String = txt.lines().map(|l| l.split("//").next().unwrap_or("")).collect::<Vec<_>>().join("\n");
    for stmt in txt.split(';') {
        let s = stmt.trim();
        if s.is_empty() || s.starts_with("OPENQASM") || s.starts_with("include") {
            continue;
        }
        if let Some(rest) = s.strip_prefix("qreg") {
            let rest = rest.trim();
            let a = rest.find('[').ok_or("qreg [")?;
            let b = rest.find(']').ok_or("qreg ]")?;
            if &rest[..a] != "q" {
                return Err(format!("unexpected register {rest}"));
            }
            n = Some(rest[a + 1..b].parse::<usize>().map_err(|e| e.to_string())?);
            continue;
        }
        // name(args) q[i], q[j]
        let (head, qargs) = match s.find(|c: char| c == ' ' || c == '(') {
            Some(p) if s.as_bytes()[p] == b'(' => {
                // matching parenthesis (the argument may itself contain parentheses)
                let mut depth = 0i32;
                let mut close = None;
                for (k, ch) in s.char_indices().skip(p) {
                    match ch {
                        '(' => depth += 1,
                        ')' => {
                            depth -= 1;
                            if depth == 0 {
                                close = Some(k);
                                break;
                            }
                        }
                        _ => {}
                    }
                }
                let close = close.ok_or("missing )")?;
                (&s[..close + 1], s[close + 1..].trim())
            }
            Some(p) => (&s[..p], s[p..].trim()),
            None => return Err(format!("cannot parse '{s}'")),
        };
        let (name, arg) = match head.find('(') {
            Some(p) => (&head[..p], Some(&head[p + 1..head.len() - 1])),
            None => (head, None),
        };
        let mut qs = vec![];
        for q in qargs.split(',') {
            let q = q.trim();
            let a = q.find('[').ok_or("qubit [")?;
            let b = q.find(']').ok_or("qubit ]")?;
            qs.push(q[a + 1..b].parse::<usize>().map_err(|e| e.to_string())?);
        }
        let phase = |arg: Option<&str>| -> Result<(i64, i64), String> {
            // any arithmetic expression over numbers and `pi` (radians), e.g. 0.25*pi, pi/4,
            // -3*pi/4, 0.785398: the printer's exact format is not part of the contract
            let a = arg.ok_or("missing phase")?.trim();
            let radians = eval_angle(a)?;
            let x = radians / std::f64::consts::PI;
            let den = 1i64 << 40;
            Ok(((x * den as f64).round() as i64, den))
        };
        let need = |k: usize| if qs.len() == k { Ok(()) } else { Err(format!("{name}: {} qubits", qs.len())) };
        let g = match name {
            "rz" => {
                need(1)?;
                G::Rz(qs[0], phase(arg)?)
            }
            "rx" => {
                need(1)?;
                G::Rx(qs[0], phase(arg)?)
            }
            "x" => {
                need(1)?;
                G::X(qs[0])
            }
            "z" => {
                need(1)?;
                G::Z(qs[0])
            }
            "s" => {
                need(1)?;
                G::S(qs[0])
            }
            "t" => {
                need(1)?;
                G::T(qs[0])
            }
            "sdg" => {
                need(1)?;
                G::Sdg(qs[0])
            }
            "tdg" => {
                need(1)?;
                G::Tdg(qs[0])
            }
            "h" => {
                need(1)?;
                G::H(qs[0])
            }
            "cx" => {
                need(2)?;
                G::Cx(qs[0], qs[1])
            }
            "cz" => {
                need(2)?;
                G::Cz(qs[0], qs[1])
            }
            "swap" => {
                need(2)?;
                G::Swap(qs[0], qs[1])
            }
            other => return Err(format!("unexpected gate {other}")),
        };
        gates.push(g);
    }
    let n = n.ok_or("no qreg")?;
    for g in &gates {
        if g.qubits().iter().any(|&q| q >= n) {
            return Err("qubit out of range".into());
        }
    }
    Ok(Circ { n, gates })
}

fn run_with_timeout(mut cmd: Command, secs: u64) -> Result<std::process::Output, String> {
    use std::process::Stdio;
    cmd.stdout(Stdio::piped()).stderr(Stdio::piped());
    let mut child = cmd.spawn().map_err(|e| format!("spawn: {e}"))?;
    let t0 = Instant::now();
    loop {
        match child.try_wait() {
            Ok(Some(_)) => return child.wait_with_output().map_err(|e| e.to_string()),
            Ok(None) => {
                if t0.elapsed() > Duration::from_secs(secs) {
                    let _ = child.kill();
                    let _ = child.wait();
                    return Err("timeout".into());
                }
                std::thread::sleep(Duration::from_millis(5));
            }
            Err(e) => return Err(e.to_string()),
        }
    }
}

fn check_cli(family: &'static str, index: u64, c: &Circ, rf: &Ref, cli: &str, dir: &str, text: Option<String>) {
    let cx = ctx();
    let path = format!("{dir}/c{index}.qasm");
    let input_text = text.unwrap_or_else(|| print_qasm(c));
    if std::fs::write(&path, &input_text).is_err() {
        cx.harness_error("cannot write qasm temp file");
        return;
    }
    for (mi, method) in ["", "--full", "--flow", "--clifford"].iter().enumerate() {
        let use_out = (index as usize + mi) % 2 == 1;
        let outp = format!("{dir}/c{index}.{mi}.out.qasm");
        let mut cmd = Command::new(cli);
        cmd.arg("opt").arg(&path);
        if !method.is_empty() {
            cmd.arg(method);
        }
        if use_out {
            if index % 2 == 1 {
                // an older, much longer file is already there
                let _ = std::fs::write(&outp, "// stale output of an earlier run\nh q[0];\n".repeat(400));
                cx.count("cli:-o-over-an-existing-file", 1);
            }
            cmd.arg("-o").arg(&outp);
        }
        cx.count(&format!("cli:opt{}{}", if method.is_empty() { ":default" } else { method }, if use_out { ":-o" } else { "" }), 1);
        let detail = |what: &str, extra: serde_json::Value| json!({"what": what, "method": method, "with_o": use_out, "circuit": circ_json(c), "qasm": input_text, "extra": extra});
        let out = match run_with_timeout(cmd, 120) {
            Ok(o) => o,
            Err(e) => {
                cx.inconclusive("cli-watchdog-or-spawn", json!({"err": e, "index": index}));
                continue;
            }
        };
        let stdout = String::from_utf8_lossy(&out.stdout).to_string();
        let stderr = String::from_utf8_lossy(&out.stderr).to_string();
        if !out.status.success() || stderr.contains("panicked at") {
            let cls = if stderr.contains("panicked at") { "panic" } else { "nonzero-exit" };
            cx.violation(
                &format!("cli opt {method}|{cls}"),
                family,
                index,
                detail("CLI failed", json!({"code": out.status.code(), "stderr": stderr.chars().take(600).collect::<String>()})),
            );
            continue;
        }
        let text = if use_out {
            match std::fs::read_to_string(&outp) {
                Ok(t) => t,
                Err(_) => {
                    cx.violation(&format!("cli opt {method}|no-output-file"), family, index, detail("-o file not written", json!(null)));
                    continue;
                }
            }
        } else {
            stdout
        };
        // independent parser
        match parse_qasm_lite(&text) {
            Ok(hc) => {
                if hc.n != c.n {
                    cx.violation(&format!("cli opt {method}|qubit-count"), family, index, detail("qubit count differs", json!({"printed": text})));
                } else if equivalent(&hc, rf, c.n, false, 1e-6).is_none() {
                    cx.violation(&format!("cli opt {method}|not-equivalent"), family, index, detail("printed circuit (independent parser) not equivalent", json!({"printed": text})));
                }
            }
            Err(e) => cx.violation(&format!("cli opt {method}|unparsable-output"), family, index, detail("independent parser rejects the printed QASM", json!({"why": e, "printed": text}))),
        }
        // the repository's own parser ("parses back")
        match guarded(|| Circuit::from_qasm(&text)) {
            Ok(Ok(qc)) => match from_quizx(&qc) {
                Ok(hc) => {
                    if hc.n != c.n || equivalent(&hc, rf, c.n, false, 1e-6).is_none() {
                        cx.violation(&format!("cli opt {method}|parse-back-not-equivalent"), family, index, detail("output parsed back by from_qasm is not equivalent", json!({"printed": text})));
                    }
                }
                Err(e) => cx.violation(&format!("cli opt {method}|parse-back-malformed"), family, index, detail("parsed-back circuit malformed", json!(e))),
            },
            Ok(Err(e)) => cx.violation(&format!("cli opt {method}|parse-back-error"), family, index, detail("from_qasm rejects the CLI's own output", json!({"err": e, "printed": text}))),
            Err(e) => cx.violation(&format!("cli opt {method}|parse-back-panic"), family, index, detail("from_qasm panicked on the CLI's own output", json!(e.text()))),
        }
        let _ = std::fs::remove_file(&outp);
    }
    let _ = std::fs::remove_file(&path);
}

fn check_case(family: &'static str, index: u64, c: &Circ) {
    let cx = ctx();
    let rf = reference(c);
    check_lib::<quizx::vec_graph::Graph>(family, index, "vec", c, &rf);
    check_lib::<quizx::hash_graph::Graph>(family, index, "hash", c, &rf);
    cx.case(family, if c.gates.len() >= 2 { Some(circ_hash(c)) } else { None });
    cx.evals(19);
    cx.sample_n(4, || json!({"family": family, "index": index, "circuit": circ_json(c)}));
}

pub fn run() {
    let c = ctx();
    let t = c.tier;
    c.set_rule("cases = unitary circuits; each goes through 10 (strategy, extractor) configurations x 2 backends (evaluations counts these) and, in the CLI family, 4 `quizx opt` invocations; non-trivial = at least 2 gates; distinct = distinct gate sequences");
    c.assume("independent simulator O3 correct (self-tested, cross-checked against O2)");
    c.assume("'up to permutation' is decided as: there exists a permutation of the input qubits making the circuits proportional");
    if parse_qasm_lite("OPENQASM 2.0;\ninclude \"qelib1.inc\";\nqreg q[2];\nrz(0.25*pi) q[0];\ncx q[0], q[1];\nh q[1];\n").map(|c| c.gates.len()) != Ok(3) {
        c.harness_error("qasm_lite self-test failed");
        return;
    }
    for (e, want) in [("0.25*pi", 0.25), ("pi/4", 0.25), ("-3*pi/4", -0.75), ("(1+1)*pi/8", 0.25), ("1.5707963267948966", 0.5), ("2.5e-1*pi", 0.25)] {
        match eval_angle(e) {
            Ok(v) if (v / std::f64::consts::PI - want).abs() < 1e-12 => {}
            other => {
                c.harness_error(&format!("eval_angle self-test failed on {e}: {other:?}"));
                return;
            }
        }
    }
    let (nq, depth, n) = t.pick((4usize, 30usize, 6000usize), (5usize, 60usize, 60_000usize));
    par_cases("clifford-t", n, move |r, i| {
        let mut p = CircParams::unitary(nq, depth, PhPool::Exact);
        p.ccz = false;
        p.pp = false;
        p.xcx = false;
        let circ = gen_circuit(r, &p);
        check_case("clifford-t", i, &circ);
    });
    par_cases("full-gate-set", n, move |r, i| {
        let p = CircParams::unitary(nq, depth, PhPool::Exact);
        let circ = gen_circuit(r, &p);
        check_case("full-gate-set", i, &circ);
    });
    par_cases("rational-phases", n / 2, move |r, i| {
        let mut p = CircParams::unitary(nq, depth, PhPool::Float);
        p.ccz = r.chance(0.3);
        let circ = gen_circuit(r, &p);
        check_case("rational-phases", i, &circ);
    });
    par_cases("cnot-heavy", n / 2, move |r, i| {
        // many CNOTs on few qubits: exercises Gaussian elimination and final permutations
        let nqb = 2 + r.below(nq.max(3) - 1);
        let mut gates = vec![];
        let d = 4 + r.below(depth);
        for _ in 0..d {
            let a = r.below(nqb);
            let mut b = r.below(nqb);
            if a == b {
                b = (a + 1) % nqb;
            }
            match r.below(10) {
                0..=5 => gates.push(G::Cx(a, b)),
                6 => gates.push(G::Swap(a, b)),
                7 => gates.push(G::T(a)),
                8 => gates.push(G::H(a)),
                _ => gates.push(G::Cz(a, b)),
            }
        }
        check_case("cnot-heavy", i, &Circ { n: nqb, gates });
    });
    // larger circuits: more frontier rows for the Gaussian elimination and longer
    // permutation tails (6 qubits = 720 candidate permutations for up_to_perm)
    let (lq, ld, ln) = t.pick((5usize, 40usize, 150usize), (6usize, 80usize, 6_000usize));
    par_cases("clifford-t-large", ln, move |r, i| {
        let mut p = CircParams::unitary(lq, ld, PhPool::Exact);
        p.min_qubits = lq - 1;
        p.ccz = r.chance(0.2);
        p.pp = r.chance(0.2);
        let circ = gen_circuit(r, &p);
        check_case("clifford-t-large", i, &circ);
    });
    // wide circuits: 7 qubits (up_to_perm is decided over 5040 input permutations)
    par_cases("wide", t.pick(25usize, 800usize), move |r, i| {
        let mut p = CircParams::unitary(7, 40, PhPool::Exact);
        p.min_qubits = 7;
        p.ccz = false;
        p.pp = false;
        let circ = gen_circuit(r, &p);
        check_case("wide", i, &circ);
    });
    // CLI
    let Ok(cli) = std::env::var("QVMON_CLI") else {
        c.harness_error("QVMON_CLI not set (run through ./check)");
        return;
    };
    let dir = crate::fw::scratch_dir("c03");
    let ncli = t.pick(200usize, 4000usize);
    {
        let dir = dir.clone();
        par_cases("cli-opt", ncli, move |r, i| {
            let pool = if r.chance(0.7) { PhPool::Exact } else { PhPool::Float };
            let mut p = CircParams::unitary(4, 24, pool);
            p.ccz = r.chance(0.3);
            // pp is not in the QASM prelude the parser accepts
            p.pp = false;
            let mut circ = gen_circuit(r, &p);
            if pool == PhPool::Float && r.chance(0.5) {
                // denominators above 2^12: the optimised circuit goes through printed text
                for g in circ.gates.iter_mut() {
                    if let G::Rz(_, ph) | G::Rx(_, ph) = g {
                        if r.chance(0.6) {
                            let d = *r.pick(&[4097i64, 5000, 8192, 10_007, 65_537, 1 << 20, (1 << 31) - 1]);
                            let k = match r.below(3) {
                                0 => 1,
                                1 => d - 1,
                                _ => r.range(-d + 1, d),
                            };
                            let q = quizx::phase::Phase::new(num::rational::Rational64::new(k, d)).to_rational();
                            *ph = (*q.numer(), *q.denom());
                        }
                    }
                }
                ctx().count("cli-opt:with-phase-denominators-above-4096", 1);
            }
            // half of the inputs in another spelling of the same circuit: several registers,
            // unused classical registers, built-in CX, `pi*k/d`, comment lines
            let text = if i % 12 == 5 {
                // programs without any gate statement (their qubit count comes from the
                // declarations alone), with and without classical registers
                circ.gates.clear();
                ctx().count("cli-opt:zero-gate-program", 1);
                let mut t = format!("OPENQASM 2.0;\ninclude \"qelib1.inc\";\nqreg q[{}];\n", circ.n);
                if r.chance(0.7) {
                    t += &format!("creg c[{}];\n", *r.pick(&[1usize, circ.n, circ.n + 2]));
                }
                Some(t)
            } else if r.chance(0.5) {
                ctx().count("cli-opt:input-in-a-variant-spelling", 1);
                Some(print_qasm_variants_opt(&circ, r, false).0)
            } else {
                None
            };
            let rf = reference(&circ);
            check_cli("cli-opt", i, &circ, &rf, &cli, &dir, text);
            let cx = ctx();
            cx.case("cli-opt", if circ.gates.len() >= 2 { Some(circ_hash(&circ) ^ 0xC11) } else { None });
            cx.evals(3);
        });
    }
    let _ = std::fs::remove_dir_all(&dir);
}

//! C03 -- monitor (to be written)
use crate::fw::ctx;

pub fn run() {
    ctx().harness_error("C03 monitor not implemented yet");
}

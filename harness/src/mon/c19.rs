//! C19 -- workload generators are reproducible and deliver the instances they promise.
//!
//! Events: calls of the REAL seeded builders in `quizx::generate` (`Circuit::random`,
//! `Circuit::random_hidden_shift`, `Circuit::random_pauli_gadget`) and
//! `quizx::random_graph::EquatorialStabilizerStateBuilder` with generated parameters and
//! seeds. Oracles:
//! * reproducibility: the same (seed, parameters) built by a fresh builder twice, by a
//!   re-seeded builder, and on another thread gives `==` objects;
//! * parameter respect: own inspection of the gate list (through `from_quizx` and the raw
//!   `Gate` fields);
//! * hidden shift: exact state vector U|0..0> from the gate-matrix simulator O3 (all
//!   qubits declared ancillae, so only one column is simulated; 2^n amplitudes in
//!   Z[omega][1/2]) -- amplitude at the shift string has modulus exactly 1 and every
//!   other amplitude is exactly 0;
//! * stabiliser state: sum |E(g)|^2 == 1 exactly with the independent diagram evaluator O2.
//!
//! Readings fixed here:
//! * "<= depth gates": `Circuit::random` may emit fewer than `depth` gates when the
//!   probabilities sum to less than one; equality is recorded, not demanded.
//! * Pauli gadget phases: "multiple of pi/denominator" = phase*denominator is an integer
//!   (zero would be accepted); "non-Clifford" = not a multiple of pi/2.
//! * Inadmissible parameters with a documented panic (hidden shift with odd or < 6
//!   qubits; gadget weight > qubits) are exercised and counted, never flagged.
//! * A 1-qubit `Circuit::random` request with no two-qubit gate probability is treated as
//!   admissible (nothing in the builder says otherwise).

use crate::fw::{ctx, guarded, par_cases, Caught};
use crate::gen::circuit::{circ_json, from_quizx};
use crate::gen::prng::{hash_bytes, Rng};
use crate::oracle::eval::EvalError;
use crate::oracle::ring::{Num, R};
use crate::oracle::sim::{tensor_exact, Circ, G};
use crate::snap::{eval_graph, snap, snap_json, Tens};
use quizx::circuit::Circuit;
use quizx::gate::GType;
use quizx::graph::GraphLike;
use quizx::random_graph::EquatorialStabilizerStateBuilder;
use serde_json::{json, Value};

fn on_other_thread<T: Send + 'static>(f: impl FnOnce() -> T + Send + 'static) -> Result<T, String> {
    std::thread::Builder::new().stack_size(16 << 20).spawn(f).map_err(|e| e.to_string())?.join().map_err(|_| "panic on the other thread".to_string())
}

fn qasm(c: &Circuit) -> String {
    // gate list incl. pp gates and phases (Display drops pp phases, so use Debug of the gates)
    format!("qubits={} gates={:?}", c.num_qubits(), c.gates)
}

fn report_panic(site: &str, cond: &str, e: &Caught, family: &'static str, index: u64, params: &Value) {
    let c = ctx();
    match e {
        Caught::Oracle(m) => c.inconclusive("oracle-error", json!({"site": site, "msg": m, "params": params})),
        other => c.violation(&format!("{site}|panic|{cond}"), family, index, json!({"what": "panic", "panic": other.text(), "params": params})),
    }
}

/// every gate: qubits distinct and in range
fn args_ok(c: &Circuit) -> Option<String> {
    for g in c.gates.iter() {
        for (i, &q) in g.qs.iter().enumerate() {
            if q >= c.num_qubits() {
                return Some(format!("qubit {q} out of range in {g:?}"));
            }
            if g.qs[..i].contains(&q) {
                return Some(format!("repeated qubit {q} in {g:?}"));
            }
        }
    }
    None
}

// --------------------------------------------------------------------------------------
// Circuit::random
// --------------------------------------------------------------------------------------

#[derive(Clone, Debug)]
struct RcParams {
    seed: u64,
    qubits: usize,
    depth: usize,
    /// (p_cnot, p_cz, p_h, p_s, p_t)
    p: [f32; 5],
    /// how the probabilities were set: 0 explicit setters, 1 uniform(), 2 clifford_t(p_t), 3 p_cz + p_t + with_cliffords()
    mode: u8,
}

fn rc_build(p: &RcParams) -> Circuit {
    let mut b = Circuit::random();
    b.seed(p.seed).qubits(p.qubits).depth(p.depth);
    match p.mode {
        1 => {
            b.uniform();
        }
        2 => {
            b.clifford_t(p.p[4]);
        }
        3 => {
            b.p_cz(p.p[1]).p_t(p.p[4]).with_cliffords();
        }
        _ => {
            b.p_cnot(p.p[0]).p_cz(p.p[1]).p_h(p.p[2]).p_s(p.p[3]).p_t(p.p[4]);
        }
    }
    b.build()
}

/// probabilities the builder ends up with, read back from its public fields
fn rc_effective(p: &RcParams) -> [f32; 5] {
    let mut b = Circuit::random();
    b.qubits(p.qubits).depth(p.depth);
    match p.mode {
        1 => {
            b.uniform();
        }
        2 => {
            b.clifford_t(p.p[4]);
        }
        3 => {
            b.p_cz(p.p[1]).p_t(p.p[4]).with_cliffords();
        }
        _ => {
            b.p_cnot(p.p[0]).p_cz(p.p[1]).p_h(p.p[2]).p_s(p.p[3]).p_t(p.p[4]);
        }
    }
    [b.p_cnot, b.p_cz, b.p_h, b.p_s, b.p_t]
}

fn gen_rc_params(r: &mut Rng, one_qubit: bool) -> RcParams {
    gen_rc_params_sized(r, one_qubit, false)
}

fn gen_rc_params_sized(r: &mut Rng, one_qubit: bool, wide: bool) -> RcParams {
    let qubits = if one_qubit {
        1
    } else if wide {
        if r.chance(0.5) {
            *r.pick(&[16usize, 33, 64, 65, 100, 129, 300])
        } else {
            r.log_uniform(11, 300)
        }
    } else {
        2 + r.below(9)
    };
    let depth = if r.chance(0.05) {
        0
    } else if wide {
        if r.chance(0.5) {
            *r.pick(&[100usize, 300, 1030, 2500]) + r.below(40)
        } else {
            r.log_uniform(81, 3000)
        }
    } else {
        r.below(81)
    };
    let mode = if one_qubit { 0 } else { r.below(4) as u8 };
    let mut p = [0f32; 5];
    match mode {
        0 => {
            // random subset of kinds with non-zero probability; total <= 1 or (sometimes) < 1
            let total = if r.chance(0.3) { 0.3 + 0.6 * r.f64() } else { 1.0 };
            let mut w = [0f64; 5];
            let mut any = false;
            for (k, wk) in w.iter_mut().enumerate() {
                if one_qubit && k < 2 {
                    continue;
                }
                if r.chance(0.6) {
                    *wk = 0.1 + r.f64();
                    any = true;
                }
            }
            if !any {
                w[2 + r.below(3)] = 1.0;
            }
            let s: f64 = w.iter().sum();
            for k in 0..5 {
                p[k] = (w[k] / s * total) as f32;
            }
        }
        2 => p[4] = (r.f64() * 0.6) as f32,
        3 => {
            p[1] = (r.f64() * 0.4) as f32;
            p[4] = (r.f64() * 0.4) as f32;
        }
        _ => {}
    }
    RcParams { seed: r.next_u64(), qubits, depth, p, mode }
}

fn check_random_circuit(family: &'static str, index: u64, r: &mut Rng, one_qubit: bool) {
    let c = ctx();
    let p = if family == "random-circuit-wide" { gen_rc_params_sized(r, false, true) } else { gen_rc_params(r, one_qubit) };
    c.maximum("random-circuit:max-qubits", p.qubits as u64);
    c.maximum("random-circuit:max-depth", p.depth as u64);
    let params = json!({"seed": p.seed, "qubits": p.qubits, "depth": p.depth, "p_cnot,p_cz,p_h,p_s,p_t": p.p, "mode": p.mode});
    c.count(&format!("random-circuit:mode{}", p.mode), 1);
    let pp = p.clone();
    let circ = match guarded(move || rc_build(&pp)) {
        Ok(x) => x,
        Err(e) => {
            let cond = if p.qubits == 1 { "qubits=1-and-no-two-qubit-gate-probability" } else { "admissible-parameters" };
            report_panic("Circuit::random.build", cond, &e, family, index, &params);
            c.case(family, None);
            return;
        }
    };
    // reproducibility
    let again = rc_build(&p);
    let p2 = p.clone();
    let other = on_other_thread(move || rc_build(&p2));
    let reseeded = {
        let mut b = Circuit::random();
        b.seed(p.seed ^ 0x55).qubits(p.qubits).depth(p.depth);
        let e = rc_effective(&p);
        b.p_cnot(e[0]).p_cz(e[1]).p_h(e[2]).p_s(e[3]).p_t(e[4]);
        let _ = b.build();
        b.seed(p.seed);
        b.build()
    };
    let by_fields = {
        let mut b = Circuit::random();
        let e = rc_effective(&p);
        b.qubits = p.qubits;
        b.depth = p.depth;
        b.p_cnot = e[0];
        b.p_cz = e[1];
        b.p_h = e[2];
        b.p_s = e[3];
        b.p_t = e[4];
        b.seed(p.seed);
        b.build()
    };
    if by_fields != circ {
        c.violation(
            "Circuit::random.build|parameters-through-public-fields-give-another-object",
            family,
            index,
            json!({"params": params, "through_setters": qasm(&circ), "through_fields": qasm(&by_fields)}),
        );
    }
    if again != circ || other.as_ref().ok() != Some(&circ) || reseeded != circ {
        c.violation(
            "Circuit::random.build|not-reproducible",
            family,
            index,
            json!({"params": params, "first": qasm(&circ), "second": qasm(&again), "other_thread": other.map(|x| qasm(&x)), "reseeded_builder": qasm(&reseeded)}),
        );
    }
    // parameters
    let eff = rc_effective(&p);
    if circ.num_qubits() != p.qubits {
        c.violation("Circuit::random.build|qubit-count", family, index, json!({"params": params, "observed": circ.num_qubits()}));
    }
    if circ.num_gates() > p.depth {
        c.violation("Circuit::random.build|more-gates-than-depth", family, index, json!({"params": params, "observed": circ.num_gates()}));
    }
    let sum: f32 = eff.iter().sum();
    if sum >= 1.0 {
        c.count(if circ.num_gates() == p.depth { "random-circuit:full-probability:gates==depth" } else { "random-circuit:full-probability:gates<depth" }, 1);
    } else {
        c.count(if circ.num_gates() == p.depth { "random-circuit:partial-probability:gates==depth" } else { "random-circuit:partial-probability:gates<depth" }, 1);
    }
    for g in circ.gates.iter() {
        let (k, arity) = match g.t {
            GType::CNOT => (0, 2),
            GType::CZ => (1, 2),
            GType::HAD => (2, 1),
            GType::S => (3, 1),
            GType::T => (4, 1),
            other => {
                c.violation(&format!("Circuit::random.build|unexpected-gate-kind|{}", other.qasm_name()), family, index, json!({"params": params, "gate": format!("{g:?}")}));
                continue;
            }
        };
        c.count(&format!("random-circuit:gate:{}", g.t.qasm_name()), 1);
        if eff[k] <= 0.0 {
            c.violation(
                &format!("Circuit::random.build|gate-kind-with-zero-probability|{}", g.t.qasm_name()),
                family,
                index,
                json!({"params": params, "effective_probabilities": eff, "gate": format!("{g:?}"), "circuit": qasm(&circ)}),
            );
        }
        if g.qs.len() != arity {
            c.violation(&format!("Circuit::random.build|arity|{}", g.t.qasm_name()), family, index, json!({"params": params, "gate": format!("{g:?}")}));
        }
    }
    if let Some(why) = args_ok(&circ) {
        c.violation("Circuit::random.build|qubit-arguments-not-distinct-in-range", family, index, json!({"params": params, "why": why, "circuit": qasm(&circ)}));
    }
    let nontrivial = circ.num_gates() >= 3;
    c.case(family, if nontrivial { Some(hash_bytes(qasm(&circ).as_bytes())) } else { None });
    c.sample_n(2, || json!({"family": family, "index": index, "params": params, "gates": circ.num_gates()}));
}

// --------------------------------------------------------------------------------------
// hidden shift
// --------------------------------------------------------------------------------------

fn hs_build(seed: u64, n: usize, depth: usize, n_ccz: usize) -> (Circuit, Vec<u8>) {
    Circuit::random_hidden_shift().seed(seed).qubits(n).clifford_depth(depth).n_ccz(n_ccz).build()
}

/// The same request with the parameters written into the builder's public fields (they are
/// `pub`, so this is legal use) - on a fresh builder, or on one that was first configured for
/// another register through the setters.
fn hs_build_fields(seed: u64, n: usize, depth: usize, n_ccz: usize, reuse: bool) -> (Circuit, Vec<u8>) {
    let mut b = Circuit::random_hidden_shift();
    if reuse {
        b.seed(seed ^ 0x77).qubits(n + 4).clifford_depth(depth + 3).n_ccz(n_ccz + 1);
        let _ = b.build();
    }
    b.qubits = n;
    b.clifford_depth = depth;
    b.n_ccz = n_ccz;
    b.seed(seed);
    b.build()
}

fn pg_build_fields(p: &PgParams, reuse: bool) -> Circuit {
    let mut b = Circuit::random_pauli_gadget();
    if reuse {
        b.seed(p.seed ^ 0x77).qubits(p.qubits + 3).depth(p.depth + 1).phase_denom(p.denom + 1).min_weight(1).max_weight(p.qubits + 3);
        let _ = b.build();
    }
    b.qubits = p.qubits;
    b.depth = p.depth;
    b.phase_denom = p.denom;
    b.min_weight = p.min_w;
    b.max_weight = p.max_w;
    b.seed(p.seed);
    b.build()
}

fn check_hidden_shift(family: &'static str, index: u64, r: &mut Rng, sizes: &[usize]) {
    let c = ctx();
    let n = *r.pick(sizes);
    let depth = if r.chance(0.05) { 0 } else { r.below(41) };
    let n_ccz = r.below(5);
    let seed = r.next_u64();
    let params = json!({"seed": seed, "qubits": n, "clifford_depth": depth, "n_ccz": n_ccz});
    c.count(&format!("hidden-shift:qubits={n}"), 1);
    let (circ, shift) = match guarded(move || hs_build(seed, n, depth, n_ccz)) {
        Ok(x) => x,
        Err(e) => {
            report_panic("random_hidden_shift.build", "admissible-parameters", &e, family, index, &params);
            c.case(family, None);
            return;
        }
    };
    let again = hs_build(seed, n, depth, n_ccz);
    let other = on_other_thread(move || hs_build(seed, n, depth, n_ccz));
    if again != (circ.clone(), shift.clone()) || other.as_ref().ok() != Some(&(circ.clone(), shift.clone())) {
        c.violation("random_hidden_shift.build|not-reproducible", family, index, json!({"params": params, "first": qasm(&circ), "second": qasm(&again.0), "shift1": shift, "shift2": again.1}));
    }
    // same seed, same parameters, written into the public fields (fresh / re-targeted builder)
    {
        let reuse = index % 2 == 1;
        c.count(if reuse { "hidden-shift:fields-on-a-reused-builder" } else { "hidden-shift:fields-on-a-fresh-builder" }, 1);
        match guarded(move || hs_build_fields(seed, n, depth, n_ccz, reuse)) {
            Ok(x) if x == (circ.clone(), shift.clone()) => {}
            Ok(x) => c.violation(
                "random_hidden_shift.build|parameters-through-public-fields-give-another-object",
                family,
                index,
                json!({"params": params, "builder_reused": reuse, "through_setters": qasm(&circ), "through_fields": qasm(&x.0), "shift_setters": shift, "shift_fields": x.1}),
            ),
            Err(e) => report_panic("random_hidden_shift.build", "parameters-through-public-fields", &e, family, index, &params),
        }
    }
    if circ.num_qubits() != n || shift.len() != n || shift.iter().any(|&b| b > 1) {
        c.violation("random_hidden_shift.build|shape", family, index, json!({"params": params, "qubits": circ.num_qubits(), "shift": shift}));
        c.case(family, None);
        return;
    }
    if let Some(why) = args_ok(&circ) {
        c.violation("random_hidden_shift.build|qubit-arguments-not-distinct-in-range", family, index, json!({"params": params, "why": why, "circuit": qasm(&circ)}));
        c.case(family, None);
        return;
    }
    let nccz = circ.num_gates_of_type(GType::CCZ);
    if nccz != 2 * n_ccz {
        c.violation("random_hidden_shift.build|ccz-count", family, index, json!({"params": params, "expected": 2 * n_ccz, "observed": nccz}));
    }
    c.count("hidden-shift:ccz-gates", nccz as u64);
    c.maximum("hidden-shift:max-gates", circ.num_gates() as u64);
    // the promise: measuring U|0..0> gives `shift` with probability one
    let hc = match from_quizx(&circ) {
        Ok(h) => h,
        Err(m) => {
            c.violation("random_hidden_shift.build|unsupported-gate", family, index, json!({"params": params, "why": m}));
            c.case(family, None);
            return;
        }
    };
    let mut gates: Vec<G> = (0..n).map(G::InitAnc).collect();
    gates.extend(hc.gates.iter().cloned());
    let col = Circ { n, gates };
    let (amps, ni, no) = tensor_exact(&col);
    assert_eq!((ni, no, amps.len()), (0, n, 1usize << n));
    let mut idx = 0usize;
    for (q, &b) in shift.iter().enumerate() {
        if b == 1 {
            idx |= 1usize << (n - 1 - q);
        }
    }
    let p_shift = amps[idx].norm_sqr();
    let others_zero = amps.iter().enumerate().all(|(i, a)| i == idx || a.is_zero());
    if p_shift != R::one() || !others_zero {
        let support: Vec<String> = amps.iter().enumerate().filter(|(_, a)| !a.is_zero()).take(8).map(|(i, a)| format!("{i:0w$b}: {a}", w = n)).collect();
        c.violation(
            "random_hidden_shift.build|shift-is-not-the-deterministic-outcome",
            family,
            index,
            json!({"params": params, "shift": shift, "expected": "|<shift|U|0>|^2 == 1", "observed_probability": format!("{p_shift}"),
                   "support_head": support, "circuit": circ_json(&hc)}),
        );
    }
    let nontrivial = depth > 0 || n_ccz > 0;
    c.case(family, if nontrivial { Some(hash_bytes(format!("{}{:?}", qasm(&circ), shift).as_bytes())) } else { None });
    c.sample_n(4, || json!({"family": family, "index": index, "params": params, "shift": shift, "gates": circ.num_gates(), "probability_of_shift": format!("{p_shift}")}));
}

fn check_hidden_shift_inadmissible(family: &'static str, r: &mut Rng) {
    let c = ctx();
    let n = *r.pick(&[0usize, 2, 4, 5, 7, 9]);
    let seed = r.next_u64();
    match guarded(move || hs_build(seed, n, 5, 1)) {
        Err(Caught::Panic { msg, .. }) if msg.contains("even number of qubits >= 6") => c.count("hidden-shift:inadmissible:documented-panic", 1),
        Err(_) => c.count("hidden-shift:inadmissible:other-panic", 1),
        Ok(_) => c.count("hidden-shift:inadmissible:returned", 1),
    }
    c.case(family, None);
}

// --------------------------------------------------------------------------------------
// equatorial stabiliser states
// --------------------------------------------------------------------------------------

fn stab_build<Gr: GraphLike>(seed: u64, n: usize) -> Gr {
    EquatorialStabilizerStateBuilder::new().seed(seed).qubits(n).build()
}

fn check_stab_one<Gr: GraphLike + PartialEq + Send + 'static>(family: &'static str, index: u64, backend: &str, seed: u64, n: usize) -> Option<(Value, Option<Tens>)> {
    let c = ctx();
    let params = json!({"seed": seed, "qubits": n, "backend": backend});
    c.count(&format!("stab-state:{backend}:qubits={n}"), 1);
    let g: Gr = match guarded(move || stab_build::<Gr>(seed, n)) {
        Ok(g) => g,
        Err(e) => {
            report_panic("EquatorialStabilizerStateBuilder.build", backend, &e, family, index, &params);
            return None;
        }
    };
    let again: Gr = stab_build(seed, n);
    let other: Result<Gr, String> = on_other_thread(move || stab_build::<Gr>(seed, n));
    let s = match snap(&g) {
        Ok(s) => s,
        Err(m) => {
            c.violation("EquatorialStabilizerStateBuilder.build|unsnappable", family, index, json!({"params": params, "why": m}));
            return None;
        }
    };
    let sj = snap_json(&s);
    let same2 = again == g && snap(&again).map(|x| snap_json(&x)).ok() == Some(sj.clone());
    let same3 = matches!(&other, Ok(o) if *o == g);
    if !same2 || !same3 {
        c.violation("EquatorialStabilizerStateBuilder.build|not-reproducible", family, index, json!({"params": params, "first": sj}));
    }
    if !g.inputs().is_empty() || g.outputs().len() != n {
        c.violation(
            "EquatorialStabilizerStateBuilder.build|shape",
            family,
            index,
            json!({"params": params, "inputs": g.inputs().len(), "outputs": g.outputs().len(), "diagram": sj}),
        );
        return Some((sj, None));
    }
    match eval_graph(&g) {
        Ok(t) => {
            match &t {
                Tens::Exact(v) => {
                    let mut sum = R::zero();
                    for a in v {
                        sum = sum.add(&a.norm_sqr());
                    }
                    if sum != R::one() {
                        c.violation(
                            "EquatorialStabilizerStateBuilder.build|not-a-unit-vector",
                            family,
                            index,
                            json!({"params": params, "expected_norm_squared": "1", "observed_norm_squared": format!("{sum}"), "diagram": sj}),
                        );
                    }
                    // evidence only: equal moduli (equatorial)
                    let m0 = v.first().map(|a| a.norm_sqr());
                    if v.iter().all(|a| Some(a.norm_sqr()) == m0) {
                        c.count("stab-state:all-amplitudes-equal-modulus", 1);
                    } else {
                        c.count("stab-state:amplitudes-of-different-modulus", 1);
                    }
                }
                Tens::Float(v) | Tens::FloatN(v, _) => {
                    // the builder only uses multiples of pi/2 and an exact scalar, so this branch is unexpected
                    let sum: f64 = v.iter().map(|a| a.norm_sqr()).sum();
                    c.count("stab-state:float-evaluation", 1);
                    if (sum - 1.0).abs() > 1e-8 {
                        c.violation(
                            "EquatorialStabilizerStateBuilder.build|not-a-unit-vector",
                            family,
                            index,
                            json!({"params": params, "expected_norm_squared": 1.0, "observed_norm_squared": sum, "diagram": sj}),
                        );
                    }
                }
            }
            Some((sj, Some(t)))
        }
        Err(EvalError::TooWide(_)) => {
            c.skipped();
            Some((sj, None))
        }
        Err(EvalError::IllFormed(m)) => {
            c.violation("EquatorialStabilizerStateBuilder.build|ill-formed-diagram", family, index, json!({"params": params, "why": m, "diagram": sj}));
            Some((sj, None))
        }
    }
}

fn check_stab(family: &'static str, index: u64, r: &mut Rng, max_n: usize) {
    let c = ctx();
    let n = if r.chance(0.03) { 0 } else { 1 + r.below(max_n) };
    let seed = r.next_u64();
    let a = check_stab_one::<quizx::vec_graph::Graph>(family, index, "vec", seed, n);
    let b = check_stab_one::<quizx::hash_graph::Graph>(family, index, "hash", seed, n);
    if let (Some((ja, ta)), Some((jb, tb))) = (&a, &b) {
        if ja == jb {
            c.count("stab-state:backends-structurally-equal", 1);
        } else {
            c.count("stab-state:backends-structurally-different", 1);
        }
        if let (Some(ta), Some(tb)) = (ta, tb) {
            if !ta.same(tb, 1e-8) {
                c.violation(
                    "EquatorialStabilizerStateBuilder.build|backends-denote-different-states",
                    family,
                    index,
                    json!({"seed": seed, "qubits": n, "vec": ja, "hash": jb}),
                );
            }
        }
    }
    let h = a.as_ref().map(|x| hash_bytes(x.0.to_string().as_bytes()));
    c.case(family, if n >= 2 { h } else { None });
    c.evals(1);
    c.sample_n(6, || json!({"family": family, "index": index, "seed": seed, "qubits": n, "diagram": a.map(|x| x.0)}));
}

// --------------------------------------------------------------------------------------
// Pauli gadgets
// --------------------------------------------------------------------------------------

#[derive(Clone, Debug)]
struct PgParams {
    seed: u64,
    qubits: usize,
    depth: usize,
    min_w: usize,
    max_w: usize,
    denom: usize,
    /// use the `weight(w)` setter instead of min/max
    single_weight: bool,
}

fn pg_build(p: &PgParams) -> Circuit {
    let mut b = Circuit::random_pauli_gadget();
    b.seed(p.seed).qubits(p.qubits).depth(p.depth).phase_denom(p.denom);
    if p.single_weight {
        b.weight(p.min_w);
    } else {
        b.min_weight(p.min_w).max_weight(p.max_w);
    }
    b.build()
}

fn check_pauli_gadget(family: &'static str, index: u64, r: &mut Rng) {
    check_pauli_gadget_sized(family, index, r, false)
}

/// `wide`: 16-300 qubits, up to 60 gadgets, weights mostly far below the qubit count (all the
/// checks are structural, so size is free)
fn check_pauli_gadget_sized(family: &'static str, index: u64, r: &mut Rng, wide: bool) {
    let c = ctx();
    let qubits = if wide {
        if r.chance(0.5) {
            *r.pick(&[16usize, 17, 24, 33, 50, 64, 65, 100, 129, 300])
        } else {
            r.log_uniform(10, 300)
        }
    } else {
        1 + r.below(9)
    };
    let depth = if r.chance(0.05) { 0 } else { r.below(if wide { 61 } else { 13 }) };
    let min_w = if wide && r.chance(0.8) { 1 + r.below(4) } else { 1 + r.below(qubits) };
    let single_weight = r.chance(0.25);
    let max_w = if single_weight {
        min_w
    } else if wide && r.chance(0.8) {
        (min_w + r.below(4)).min(qubits)
    } else {
        min_w + r.below(qubits - min_w + 1)
    };
    c.maximum("pauli-gadget:max-qubits", qubits as u64);
    let denom = *r.pick(&[1usize, 2, 3, 4, 5, 6, 7, 8, 9, 10, 12, 16, 32]);
    let p = PgParams { seed: r.next_u64(), qubits, depth, min_w, max_w, denom, single_weight };
    let params = json!({"seed": p.seed, "qubits": qubits, "depth": depth, "min_weight": min_w, "max_weight": max_w, "phase_denom": denom, "weight_setter": single_weight});
    c.count(&format!("pauli-gadget:denom={denom}"), 1);
    let pp = p.clone();
    let circ = match guarded(move || pg_build(&pp)) {
        Ok(x) => x,
        Err(e) => {
            report_panic("random_pauli_gadget.build", "admissible-parameters", &e, family, index, &params);
            c.case(family, None);
            return;
        }
    };
    let again = pg_build(&p);
    let p2 = p.clone();
    let other = on_other_thread(move || pg_build(&p2));
    if again != circ || other.as_ref().ok() != Some(&circ) {
        c.violation("random_pauli_gadget.build|not-reproducible", family, index, json!({"params": params, "first": qasm(&circ), "second": qasm(&again)}));
    }
    {
        let reuse = index % 2 == 1;
        let p3 = p.clone();
        match guarded(move || pg_build_fields(&p3, reuse)) {
            Ok(x) if x == circ => {}
            Ok(x) => c.violation(
                "random_pauli_gadget.build|parameters-through-public-fields-give-another-object",
                family,
                index,
                json!({"params": params, "builder_reused": reuse, "through_setters": qasm(&circ), "through_fields": qasm(&x)}),
            ),
            Err(e) => report_panic("random_pauli_gadget.build", "parameters-through-public-fields", &e, family, index, &params),
        }
    }
    let fail = |class: &str, why: String| {
        c.violation(&format!("random_pauli_gadget.build|{class}"), family, index, json!({"params": params, "why": why, "circuit": qasm(&circ)}));
    };
    if circ.num_qubits() != qubits {
        fail("qubit-count", format!("{} qubits", circ.num_qubits()));
    }
    if let Some(why) = args_ok(&circ) {
        fail("qubit-arguments-not-distinct-in-range", why);
        c.case(family, None);
        return;
    }
    let hc = match from_quizx(&circ) {
        Ok(h) => h,
        Err(m) => {
            fail("unsupported-gate", m);
            c.case(family, None);
            return;
        }
    };
    // parse: ( basis-layer  pp  adjoint-of-basis-layer )^depth
    let gs = &hc.gates;
    let mut i = 0usize;
    let mut gadgets = 0usize;
    let mut ok = true;
    'outer: while i < gs.len() {
        let start = i;
        while i < gs.len() && !matches!(gs[i], G::Pp(..)) {
            i += 1;
        }
        if i == gs.len() {
            fail("structure:trailing-gates-without-parity-phase", format!("gates {start}.. have no pp gate"));
            ok = false;
            break;
        }
        let layer = &gs[start..i];
        let G::Pp(qs, ph) = &gs[i] else { unreachable!() };
        // the parity-phase gate
        if !qs.windows(2).all(|w| w[0] < w[1]) {
            fail("pp-qubits-not-sorted-distinct", format!("{:?}", gs[i]));
            ok = false;
        }
        if qs.len() < min_w || qs.len() > max_w {
            fail("weight-out-of-range", format!("{:?} has weight {} not in {min_w}..={max_w}", gs[i], qs.len()));
            ok = false;
        }
        c.count(&format!("pauli-gadget:weight={}", qs.len()), 1);
        // phase = k / denom: (num/den) * denom integral
        if (ph.0 as i128 * denom as i128) % (ph.1 as i128) != 0 {
            fail("phase-not-a-multiple-of-pi/denominator", format!("{:?}", gs[i]));
            ok = false;
        }
        let clifford = 2 % ph.1 == 0;
        if denom >= 4 && denom % 2 == 0 && clifford {
            fail("clifford-phase-for-even-denominator>=4", format!("{:?}", gs[i]));
            ok = false;
        }
        c.count(if clifford { "pauli-gadget:clifford-phase" } else { "pauli-gadget:non-clifford-phase" }, 1);
        // the basis-change layer: H or rx(1/2) on distinct qubits of the support
        let mut seen: Vec<usize> = vec![];
        for g in layer {
            let q = match g {
                G::H(q) => {
                    c.count("pauli-gadget:basis:h", 1);
                    *q
                }
                G::Rx(q, (1, 2)) => {
                    c.count("pauli-gadget:basis:rx(1/2)", 1);
                    *q
                }
                other => {
                    fail("structure:unexpected-gate-in-basis-layer", format!("{other:?} before {:?}", gs[i]));
                    ok = false;
                    break 'outer;
                }
            };
            if seen.contains(&q) || !qs.contains(&q) {
                fail("structure:basis-layer-qubit-repeated-or-outside-support", format!("{g:?} before {:?}", gs[i]));
                ok = false;
            }
            seen.push(q);
        }
        // followed by the adjoint layer
        let expect: Vec<G> = layer
            .iter()
            .rev()
            .map(|g| match g {
                G::Rx(q, _) => G::Rx(*q, (-1, 2)),
                other => other.clone(),
            })
            .collect();
        let end = i + 1 + layer.len();
        if end > gs.len() || gs[i + 1..end] != expect[..] {
            fail("structure:basis-layer-not-undone-by-its-adjoint", format!("after {:?} expected {:?}", gs[i], expect));
            ok = false;
            break;
        }
        gadgets += 1;
        i = end;
    }
    if ok && gadgets != depth {
        fail("number-of-gadgets-differs-from-depth", format!("{gadgets} gadgets"));
    }
    c.count("pauli-gadget:gadgets", gadgets as u64);
    let _ = circ_json;
    c.case(family, if depth >= 1 { Some(hash_bytes(qasm(&circ).as_bytes())) } else { None });
    c.sample_n(8, || json!({"family": family, "index": index, "params": params, "gates": circ.num_gates()}));
}

fn check_pauli_gadget_inadmissible(family: &'static str, r: &mut Rng) {
    let c = ctx();
    let qubits = 1 + r.below(4);
    let seed = r.next_u64();
    match guarded(move || Circuit::random_pauli_gadget().seed(seed).qubits(qubits).depth(3).weight(qubits + 1).build()) {
        Err(Caught::Panic { msg, .. }) if msg.contains("Weight larger than total qubits") => c.count("pauli-gadget:inadmissible:documented-panic", 1),
        Err(_) => c.count("pauli-gadget:inadmissible:other-panic", 1),
        Ok(_) => c.count("pauli-gadget:inadmissible:returned", 1),
    }
    c.case(family, None);
}

pub fn run() {
    let c = ctx();
    let t = c.tier;
    c.set_rule(
        "cases = one (generator, parameters, seed) triple each, built several times (fresh builder twice, re-seeded builder, other thread) and inspected; non-trivial: random circuit with >= 3 gates, hidden-shift instance with clifford_depth > 0 or n_ccz > 0, stabiliser state on >= 2 qubits, gadget circuit with depth >= 1; distinct = distinct generated objects (64-bit hash of the serialised object)",
    );
    c.assume("gate-matrix simulator O3, diagram evaluator O2 and exact ring O1 are correct (self-tested at start)");
    c.assume("hidden-shift promise is checked on the full exact output state U|0..0> (2^n amplitudes), n in {6,8,10,12}");
    c.assume("a 1-qubit Circuit::random request without two-qubit gate probability is treated as admissible");
    let n = t.pick(6000usize, 250_000usize);
    par_cases("random-circuit", n, |r, i| check_random_circuit("random-circuit", i, r, false));
    par_cases("random-circuit-wide", t.pick(300, 20_000), |r, i| check_random_circuit("random-circuit-wide", i, r, false));
    // "depth gates" when the probabilities add up to exactly 1 (dyadic values, so the sum is
    // exact in f32 whatever the order): a million gates per circuit, so that events of
    // probability 2^-25 per gate are seen; only counts and arities are inspected
    par_cases("random-circuit-huge-depth", t.pick(256usize, 2_000usize), |r, i| {
        let c = ctx();
        let depth = 1_000_000usize;
        let qubits = 2 + r.below(3);
        let seed = r.next_u64();
        let probs: [f32; 5] = *r.pick(&[[0.0, 0.0, 0.5, 0.0, 0.5], [0.25, 0.25, 0.25, 0.0, 0.25], [0.5, 0.0, 0.25, 0.125, 0.125], [0.0, 0.5, 0.0, 0.5, 0.0]]);
        let params = json!({"seed": seed, "qubits": qubits, "depth": depth, "p_cnot,p_cz,p_h,p_s,p_t": probs});
        let res = guarded(move || {
            let mut b = Circuit::random();
            b.seed(seed).qubits(qubits).depth(depth).p_cnot(probs[0]).p_cz(probs[1]).p_h(probs[2]).p_s(probs[3]).p_t(probs[4]);
            let circ = b.build();
            let bad_arity = circ.gates.iter().filter(|g| g.qs.len() != if matches!(g.t, GType::CNOT | GType::CZ) { 2 } else { 1 } || g.qs.iter().any(|&q| q >= qubits)).count();
            (circ.num_gates(), bad_arity)
        });
        match res {
            Ok((n, bad)) => {
                c.count("random-circuit:gates-generated-in-huge-depth-family", n as u64);
                if n != depth {
                    c.violation("Circuit::random.build|fewer-gates-than-depth-although-probabilities-sum-to-one", "random-circuit-huge-depth", i, json!({"params": params, "gates": n}));
                }
                if bad > 0 {
                    c.violation("Circuit::random.build|qubit-arguments-not-distinct-in-range", "random-circuit-huge-depth", i, json!({"params": params, "gates_with_bad_arguments": bad}));
                }
            }
            Err(e) => report_panic("Circuit::random.build", "admissible-parameters", &e, "random-circuit-huge-depth", i, &params),
        }
        c.case("random-circuit-huge-depth", Some(seed));
    });
    par_cases("random-circuit-one-qubit", t.pick(20, 500), |r, i| check_random_circuit("random-circuit-one-qubit", i, r, true));
    par_cases("hidden-shift", n, |r, i| check_hidden_shift("hidden-shift", i, r, &[6, 8, 10, 12]));
    par_cases("hidden-shift-inadmissible", t.pick(12, 100), |r, _| check_hidden_shift_inadmissible("hidden-shift-inadmissible", r));
    let max_n = 8usize;
    par_cases("stabiliser-state", n, move |r, i| check_stab("stabiliser-state", i, r, max_n));
    par_cases("pauli-gadget", n, |r, i| check_pauli_gadget("pauli-gadget", i, r));
    par_cases("pauli-gadget-wide", n / 4, |r, i| check_pauli_gadget_sized("pauli-gadget-wide", i, r, true));
    par_cases("pauli-gadget-inadmissible", t.pick(12, 100), |r, _| check_pauli_gadget_inadmissible("pauli-gadget-inadmissible", r));
    c.extra("exhaustive", json!(false));
}

//! C19 -- monitor (to be written)
use crate::fw::ctx;

pub fn run() {
    ctx().harness_error("C19 monitor not implemented yet");
}

//! C17 -- F2 matrix routines of `quizx::linalg::Mat2`.
//!
//! Events: every call of gauss_x(full_reduce, blocksize, x) / gauss(full_reduce) / rank /
//! inverse / nullspace / transpose / vstack / hstack / mul (4 impls) / RowOps / ColOps on
//! generated matrices. Oracle: `oracle::f2` (bit-vector matrices, textbook elimination,
//! enumeration of all linear combinations for small sizes); nothing of quizx or bitgauss is
//! used to judge.
//!
//! Clauses checked per gauss call:
//!   returned rank == true rank; result has the same row space as the input; result is in
//!   echelon form (full_reduce=false) / reduced echelon form (full_reduce=true); number of
//!   non-zero rows == returned rank; the row operations reported to the `x` object
//!   (a) replayed on an oracle copy of the input give the result, (b) transformed the
//!   unrelated Mat2 handed in as part of `x` by the same matrix g (x -> g*x with
//!   g*input == result, g invertible).
//! inverse: Some <=> square and full rank; inv*m == id and m*inv == id (oracle product).
//! nullspace: count == cols - rank; each vector is 1 x cols and m*v^T == 0; independent.
//! Algebra: transpose/vstack/hstack/mul against the oracle and among themselves.
//!
//! Reading of the property where the text leaves room (so correct code is not blamed):
//!   * "echelon form" = zero rows last, leading 1s strictly moving right; "reduced" adds
//!     that a pivot column has no other 1. Row order beyond that is not constrained.
//!   * block sizes 1..=cols only (blocksize 0 divides by zero and is not in the quantifier).
//!   * a Mat2 cannot represent a 0 x n matrix with n > 0 (num_cols() reads row 0), so shapes
//!     with zero rows and non-zero width are not generated; r x 0 and 0 x 0 are only checked
//!     for no-panic / rank 0 / empty null space.

use crate::fw::{ctx, guarded, par_cases, Caught};
use crate::gen::prng::Rng;
use crate::oracle::f2::F2;
use quizx::linalg::{ColOps, Mat2, RowOps};
use serde_json::{json, Value};
use std::collections::BTreeMap;

// ----------------------------------------------------------------------------------------
// plumbing
// ----------------------------------------------------------------------------------------

fn to_mat2(f: &F2) -> Mat2 {
    Mat2::new(f.to_rows())
}

/// Read a Mat2 back through its public indexing API only.
fn of_mat2(m: &Mat2, rows: usize, cols: usize) -> Result<F2, String> {
    if m.num_rows() != rows {
        return Err(format!("{} rows, expected {rows}", m.num_rows()));
    }
    let d: Vec<Vec<u8>> = (0..rows).map(|i| m[i].clone()).collect();
    F2::from_rows(cols, &d).ok_or_else(|| format!("ragged rows or entries other than 0/1 (expected {rows}x{cols}): {d:?}"))
}

#[derive(Clone, Copy, Debug, PartialEq, Eq)]
enum Op {
    Add(usize, usize),
    Swap(usize, usize),
}

/// The `x` object handed to gauss_x: records every reported primitive and forwards it to an
/// unrelated quizx matrix (the documented use: x -> g * x).
struct Tee {
    rows: usize,
    ops: Vec<Op>,
    other: Mat2,
    bad: Option<String>,
}

impl Tee {
    fn ok(&mut self, what: &str, r0: usize, r1: usize) -> bool {
        if r0 >= self.rows || r1 >= self.rows {
            if self.bad.is_none() {
                self.bad = Some(format!("{what}({r0},{r1}) out of range for {} rows (op #{})", self.rows, self.ops.len()));
            }
            return false;
        }
        true
    }
}

impl RowOps for Tee {
    fn row_add(&mut self, r0: usize, r1: usize) {
        if self.ok("row_add", r0, r1) {
            self.ops.push(Op::Add(r0, r1));
            self.other.row_add(r0, r1);
        }
    }
    fn row_swap(&mut self, r0: usize, r1: usize) {
        if self.ok("row_swap", r0, r1) {
            self.ops.push(Op::Swap(r0, r1));
            self.other.row_swap(r0, r1);
        }
    }
}

fn replay(ops: &[Op], m: &mut F2) {
    for op in ops {
        match *op {
            Op::Add(a, b) => m.row_add(a, b),
            Op::Swap(a, b) => m.row_swap(a, b),
        }
    }
}

fn ops_json(ops: &[Op]) -> Value {
    Value::Array(
        ops.iter()
            .take(400)
            .map(|o| match o {
                Op::Add(a, b) => json!(["add", a, b]),
                Op::Swap(a, b) => json!(["swap", a, b]),
            })
            .collect(),
    )
}

#[derive(Default)]
struct Stats(BTreeMap<String, u64>);
impl Stats {
    fn add(&mut self, k: &str, n: u64) {
        if let Some(v) = self.0.get_mut(k) {
            *v += n;
        } else {
            self.0.insert(k.to_string(), n);
        }
    }
    fn flush(self) {
        let c = ctx();
        for (k, v) in self.0 {
            c.count(&k, v);
        }
    }
}

/// Ground truth for one matrix, computed once.
struct Truth {
    rank: usize,
    rref: F2,
    /// brute-force row space when small enough (definitional check)
    space: Option<Vec<u64>>,
}

fn truth_of(m: &F2) -> Result<Truth, String> {
    let (rref, piv) = m.rref();
    let space = if m.rows <= 8 { Some(m.row_space_brute()) } else { None };
    if let Some(s) = &space {
        let rb = s.len().trailing_zeros() as usize;
        if rb != piv.len() {
            return Err(format!("oracle disagreement: elimination rank {} vs enumeration rank {rb}", piv.len()));
        }
    }
    Ok(Truth { rank: piv.len(), rref, space })
}

struct CaseId<'a> {
    family: &'static str,
    index: u64,
    class: &'a str,
}

// ----------------------------------------------------------------------------------------
// one elimination call
// ----------------------------------------------------------------------------------------

/// `bs = Some(b)`: gauss_x(full, b, tee); `None`: the public wrapper gauss(full).
/// Returns the number of reported row operations.
fn check_gauss_call(id: &CaseId, m: &F2, t: &Truth, bs: Option<usize>, full: bool, x0: &F2, st: &mut Stats) -> usize {
    let c = ctx();
    let site = if bs.is_some() { "gauss_x" } else { "gauss" };
    let mut q = to_mat2(m);
    let mut tee = Tee { rows: m.rows, ops: vec![], other: to_mat2(x0), bad: None };
    let r = guarded(|| match bs {
        Some(b) => q.gauss_x(full, b, &mut tee),
        None => q.gauss(full),
    });
    let base = |what: &str, extra: Value| {
        json!({
            "what": what, "call": site, "class": id.class,
            "matrix": m.to_json(), "blocksize": bs, "full_reduce": full,
            "proxy_x": x0.to_json(), "true_rank": t.rank, "extra": extra,
        })
    };
    let ret = match r {
        Ok(v) => v,
        Err(Caught::Oracle(msg)) => {
            c.inconclusive("oracle-error", json!({"msg": msg}));
            return 0;
        }
        Err(e) => {
            c.violation(&format!("{site}|panic|{}", e.site()), id.family, id.index, base("panic", json!(e.text())));
            return 0;
        }
    };
    let res = match of_mat2(&q, m.rows, m.cols) {
        Ok(f) => f,
        Err(why) => {
            c.violation(&format!("{site}|result-malformed"), id.family, id.index, base("result is not a rows x cols 0/1 matrix", json!(why)));
            return 0;
        }
    };
    if ret != t.rank {
        c.violation(
            &format!("{site}|rank-mismatch|full_reduce={full}"),
            id.family,
            id.index,
            base("returned rank differs from the true rank", json!({"returned": ret, "result": res.to_json()})),
        );
    }
    let mut same_space = res.same_row_space(m);
    if let Some(sp) = &t.space {
        let brute_same = res.row_space_brute() == *sp;
        if brute_same != same_space {
            c.harness_error(&format!("f2 oracle: row-space comparison by rref and by enumeration disagree on {}", m.to_json()));
            same_space = brute_same;
        }
    }
    if !same_space {
        c.violation(
            &format!("{site}|row-space-changed|full_reduce={full}"),
            id.family,
            id.index,
            base("result is not row-equivalent to the input", json!({"result": res.to_json(), "rref_of_input": t.rref.to_json()})),
        );
    }
    let form = if full { res.check_rref() } else { res.check_echelon() };
    let form_ok = form.is_ok();
    if let Err(why) = form {
        let sig = if full { format!("{site}|not-reduced-echelon|full_reduce=true") } else { format!("{site}|not-echelon|full_reduce=false") };
        c.violation(&sig, id.family, id.index, base("result is not in the required echelon form", json!({"why": why, "result": res.to_json()})));
    }
    if res.nonzero_rows() != ret {
        c.violation(
            &format!("{site}|nonzero-rows-differ-from-returned-rank|full_reduce={full}"),
            id.family,
            id.index,
            base("number of non-zero rows of the result != returned value", json!({"returned": ret, "nonzero_rows": res.nonzero_rows(), "result": res.to_json()})),
        );
    }
    if full && same_space && form_ok && res != t.rref {
        // the reduced echelon form of a row space is unique
        c.harness_error(&format!("f2 oracle: a reduced echelon form with the right row space differs from the oracle's rref on {}", m.to_json()));
    }
    if bs.is_none() {
        return 0;
    }
    // ---- the reported row operations ----
    st.add("rowops_reported", tee.ops.len() as u64);
    if tee.ops.is_empty() {
        st.add("gauss_x_calls_with_no_rowops", 1);
    }
    if let Some(why) = &tee.bad {
        c.violation(&format!("{site}|rowops-index-out-of-range"), id.family, id.index, base("reported a row operation with an out-of-range index", json!(why)));
        return tee.ops.len();
    }
    if let Some(k) = tee.ops.iter().position(|o| matches!(o, Op::Add(a, b) if a == b)) {
        c.violation(
            &format!("{site}|rowops-adds-row-to-itself"),
            id.family,
            id.index,
            base("reported row_add(r, r), which is not an invertible operation", json!({"op_number": k, "ops": ops_json(&tee.ops)})),
        );
    }
    // (a) replay on a copy of the original
    let mut copy = m.clone();
    replay(&tee.ops, &mut copy);
    let replay_ok = copy == res;
    if !replay_ok {
        c.violation(
            &format!("{site}|rowops-replay-on-original-differs|full_reduce={full}"),
            id.family,
            id.index,
            base(
                "replaying the reported row operations on the input does not give the result",
                json!({"result": res.to_json(), "replayed": copy.to_json(), "ops": ops_json(&tee.ops)}),
            ),
        );
    }
    // (b) the unrelated object: x -> g * x with g the product of the reported primitives
    let mut g = F2::identity(m.rows);
    replay(&tee.ops, &mut g);
    if g.rank() != m.rows {
        c.violation(
            &format!("{site}|rowops-not-invertible"),
            id.family,
            id.index,
            base("the reported operations compose to a singular transformation", json!({"g": g.to_json(), "ops": ops_json(&tee.ops)})),
        );
    }
    if replay_ok && g.mul(m) != res {
        c.harness_error(&format!("f2 oracle: replay and g*m disagree on {}", m.to_json()));
    }
    match of_mat2(&tee.other, x0.rows, x0.cols) {
        Ok(xr) => {
            let expect = g.mul(x0);
            if xr != expect {
                c.violation(
                    &format!("{site}|rowops-proxy-object-differs|full_reduce={full}"),
                    id.family,
                    id.index,
                    base(
                        "the second object was not transformed by the same g as the matrix",
                        json!({"x_after": xr.to_json(), "g_times_x": expect.to_json(), "g": g.to_json()}),
                    ),
                );
            }
            // the documented consequence: g * m == m' for the g that acted on x
            if x0.rows == x0.cols && x0 == &F2::identity(x0.rows) && xr.mul(m) != res {
                c.violation(
                    &format!("{site}|rowops-x-times-input-differs-from-result|full_reduce={full}"),
                    id.family,
                    id.index,
                    base("with x = id, the transformed x times the input is not the result (doc: g*m = m', x -> g*x)", json!({"x_after": xr.to_json(), "result": res.to_json()})),
                );
            }
        }
        Err(why) => {
            c.violation(&format!("{site}|rowops-proxy-object-malformed"), id.family, id.index, base("proxy matrix malformed after the call", json!(why)));
        }
    }
    tee.ops.len()
}

// ----------------------------------------------------------------------------------------
// all routines on one matrix
// ----------------------------------------------------------------------------------------

fn check_matrix(id: &CaseId, m: &F2, x0: &F2, shape_key: Option<&str>, st: &mut Stats) {
    let c = ctx();
    let t = match truth_of(m) {
        Ok(t) => t,
        Err(e) => {
            c.harness_error(&e);
            return;
        }
    };
    let mut ops_by_bs: Vec<usize> = vec![];
    for bs in 1..=m.cols {
        for full in [false, true] {
            let n = check_gauss_call(id, m, &t, Some(bs), full, x0, st);
            if full {
                ops_by_bs.push(n);
            }
            match shape_key {
                Some(k) => st.add(&format!("exh:{k}:gauss_x:bs={bs}:full={full}"), 1),
                None => st.add(&format!("rand:gauss_x:bs={bs:02}:full={full}"), 1),
            }
        }
    }
    if ops_by_bs.iter().any(|&n| n != ops_by_bs[0]) {
        st.add("matrices_where_blocksize_changes_the_op_count", 1);
    }
    for full in [false, true] {
        check_gauss_call(id, m, &t, None, full, x0, st);
        st.add(&format!("gauss(bs=3):full={full}"), 1);
    }
    let det = |what: &str, extra: Value| json!({"what": what, "class": id.class, "matrix": m.to_json(), "true_rank": t.rank, "extra": extra});
    let q = to_mat2(m);
    // rank()
    match guarded(|| q.rank()) {
        Ok(r) => {
            st.add("rank_calls", 1);
            if r != t.rank {
                c.violation("rank|mismatch", id.family, id.index, det("rank() differs from the true rank", json!({"returned": r})));
            }
        }
        Err(Caught::Oracle(msg)) => c.inconclusive("oracle-error", json!({"msg": msg})),
        Err(e) => c.violation(&format!("rank|panic|{}", e.site()), id.family, id.index, det("panic", json!(e.text()))),
    }
    // inverse()
    let square = m.rows == m.cols;
    let invertible = square && t.rank == m.rows;
    match guarded(|| q.inverse()) {
        Ok(None) => {
            st.add(if square { "inverse:None:square-singular" } else { "inverse:None:non-square" }, 1);
            if invertible {
                c.violation("inverse|none-for-invertible", id.family, id.index, det("inverse() is None for an invertible matrix", json!(null)));
            }
        }
        Ok(Some(inv)) => {
            st.add("inverse:Some", 1);
            if !invertible {
                let sig = if square { "inverse|some-for-singular" } else { "inverse|some-for-non-square" };
                c.violation(sig, id.family, id.index, det("inverse() is Some for a non-invertible matrix", json!(format!("{inv:?}"))));
            } else {
                match of_mat2(&inv, m.rows, m.rows) {
                    Err(why) => c.violation("inverse|wrong-shape", id.family, id.index, det("inverse has the wrong shape", json!(why))),
                    Ok(fi) => {
                        let idm = F2::identity(m.rows);
                        if fi.mul(m) != idm {
                            c.violation("inverse|not-left-inverse", id.family, id.index, det("inv * m != id", json!({"inv": fi.to_json(), "product": fi.mul(m).to_json()})));
                        }
                        if m.mul(&fi) != idm {
                            c.violation("inverse|not-right-inverse", id.family, id.index, det("m * inv != id", json!({"inv": fi.to_json(), "product": m.mul(&fi).to_json()})));
                        }
                    }
                }
            }
        }
        Err(Caught::Oracle(msg)) => c.inconclusive("oracle-error", json!({"msg": msg})),
        Err(e) => c.violation(&format!("inverse|panic|{}", e.site()), id.family, id.index, det("panic", json!(e.text()))),
    }
    // nullspace()
    match guarded(|| q.nullspace()) {
        Ok(vs) => {
            st.add("nullspace_calls", 1);
            st.add(&format!("nullspace:dim={:02}", m.cols - t.rank), 1);
            let shown: Vec<String> = vs.iter().map(|v| format!("{v:?}")).collect();
            if vs.len() != m.cols - t.rank {
                c.violation(
                    "nullspace|count-differs-from-cols-minus-rank",
                    id.family,
                    id.index,
                    det("number of null-space vectors != cols - rank", json!({"returned": vs.len(), "expected": m.cols - t.rank, "vectors": shown})),
                );
            }
            let mut masks = vec![];
            let mut shapes_ok = true;
            for (k, v) in vs.iter().enumerate() {
                match of_mat2(v, 1, m.cols) {
                    Ok(f) => masks.push(f.r[0]),
                    Err(why) => {
                        shapes_ok = false;
                        c.violation("nullspace|vector-shape", id.family, id.index, det("null-space vector is not a 1 x cols 0/1 matrix", json!({"k": k, "why": why})));
                    }
                }
            }
            for (k, &x) in masks.iter().enumerate() {
                if m.apply(x) != 0 {
                    c.violation(
                        "nullspace|vector-not-annihilated",
                        id.family,
                        id.index,
                        det("m * v^T != 0", json!({"k": k, "vector": shown[k], "m_times_v_bits": m.apply(x), "vectors": shown})),
                    );
                    break;
                }
            }
            if shapes_ok && !F2::independent(m.cols, &masks) {
                c.violation("nullspace|vectors-dependent", id.family, id.index, det("returned vectors are linearly dependent", json!({"vectors": shown})));
            }
            if shapes_ok && m.cols <= 10 && vs.len() == m.cols - t.rank {
                // definitional cross-check: span of the vectors == { x | m x = 0 }
                let span = F2 { rows: masks.len(), cols: m.cols, r: masks.clone() }.row_space_brute();
                let ns = m.null_space_brute();
                let all_in = masks.iter().all(|&x| m.apply(x) == 0);
                let indep = F2::independent(m.cols, &masks);
                if all_in && indep && span != ns {
                    c.harness_error(&format!("f2 oracle: independent annihilated vectors of the right count do not span the brute-force null space of {}", m.to_json()));
                }
            }
        }
        Err(Caught::Oracle(msg)) => c.inconclusive("oracle-error", json!({"msg": msg})),
        Err(e) => c.violation(&format!("nullspace|panic|{}", e.site()), id.family, id.index, det("panic", json!(e.text()))),
    }
    st.add(if t.rank < m.rows.min(m.cols) { "matrices:rank-deficient" } else { "matrices:full-rank" }, 1);
    let nontrivial = t.rank >= 1 && m.rows >= 2;
    c.case(id.family, if nontrivial { Some(m.hash()) } else { None });
}

// ----------------------------------------------------------------------------------------
// generators
// ----------------------------------------------------------------------------------------

fn rand_uniform(r: &mut Rng, rows: usize, cols: usize, p: f64) -> F2 {
    let mut m = F2::zeros(rows, cols);
    for i in 0..rows {
        for j in 0..cols {
            if r.chance(p) {
                m.set(i, j, true);
            }
        }
    }
    m
}

fn scramble_rows(r: &mut Rng, m: &mut F2, n_ops: usize) {
    if m.rows < 2 {
        return;
    }
    for _ in 0..n_ops {
        let a = r.below(m.rows);
        let mut b = r.below(m.rows - 1);
        if b >= a {
            b += 1;
        }
        if r.chance(0.8) {
            m.row_add(a, b);
        } else {
            m.row_swap(a, b);
        }
    }
}

pub const CLASSES: [&str; 9] = [
    "uniform",
    "rank-deficient",
    "duplicate-rows",
    "zero-columns",
    "block-boundary-pivots",
    "chunk-pool",
    "invertible",
    "permuted-triangular",
    "corank-one",
];

fn gen_matrix(r: &mut Rng, max_dim: usize) -> (F2, &'static str) {
    let dim = |r: &mut Rng| -> usize {
        if r.chance(0.35) {
            1 + r.below(6.min(max_dim))
        } else {
            1 + r.below(max_dim)
        }
    };
    let mut rows = dim(r);
    let mut cols = dim(r);
    if r.chance(0.25) {
        cols = rows;
    }
    let class = CLASSES[r.below(CLASSES.len())];
    let dens = *r.pick(&[0.05, 0.2, 0.5, 0.5, 0.8, 0.95]);
    let m = match class {
        "uniform" => rand_uniform(r, rows, cols, dens),
        "rank-deficient" => {
            let k = r.below(rows.min(cols).max(1));
            let basis = rand_uniform(r, k, cols, 0.5);
            let mut m = F2::zeros(rows, cols);
            for i in 0..rows {
                for b in 0..k {
                    if r.chance(0.5) {
                        m.r[i] ^= basis.r[b];
                    }
                }
            }
            m
        }
        "duplicate-rows" => {
            let mut m = rand_uniform(r, rows, cols, dens);
            for i in 1..rows {
                if r.chance(0.5) {
                    m.r[i] = m.r[r.below(i)];
                }
            }
            let mut order: Vec<usize> = (0..rows).collect();
            r.shuffle(&mut order);
            F2 { rows, cols, r: order.iter().map(|&i| m.r[i]).collect() }
        }
        "zero-columns" => {
            let mut m = rand_uniform(r, rows, cols, dens.max(0.3));
            let force = r.below(cols);
            for j in 0..cols {
                if j == force || r.chance(0.3) {
                    for i in 0..rows {
                        m.set(i, j, false);
                    }
                }
            }
            // leading zero columns shift every pivot away from the block starts
            if r.chance(0.3) {
                let lead = r.below(cols);
                for j in 0..lead {
                    for i in 0..rows {
                        m.set(i, j, false);
                    }
                }
            }
            if rows > 1 && r.chance(0.3) {
                let z = r.below(rows);
                m.r[z] = 0;
            }
            m
        }
        "block-boundary-pivots" => {
            // echelon matrix whose pivots sit on the first / last column of blocks of width b,
            // then hidden by random invertible row operations
            let b = 1 + r.below(cols);
            let mut pivs = vec![];
            for j in 0..cols {
                let on_boundary = j % b == 0 || j % b == b - 1 || j + 1 == cols;
                if pivs.len() < rows && r.chance(if on_boundary { 0.7 } else { 0.08 }) {
                    pivs.push(j);
                }
            }
            let mut m = F2::zeros(rows, cols);
            for (k, &p) in pivs.iter().enumerate() {
                m.set(k, p, true);
                for j in p + 1..cols {
                    if !pivs.contains(&j) && r.chance(0.5) {
                        m.set(k, j, true);
                    }
                }
            }
            scramble_rows(r, &mut m, 3 * rows + 2);
            m
        }
        "chunk-pool" => {
            // every row is assembled from a small pool of sub-rows per block of width b, so the
            // chunk de-duplication of the Patel-Markov-Hayes pass fires in (almost) every block
            let b = 1 + r.below(cols);
            let nblocks = (cols + b - 1) / b;
            let mut m = F2::zeros(rows, cols);
            for blk in 0..nblocks {
                let lo = blk * b;
                let hi = (lo + b).min(cols);
                let w = hi - lo;
                let pool_n = 1 + r.below(3);
                let pool: Vec<u64> = (0..pool_n).map(|k| if k == 0 && r.chance(0.3) { 0 } else { r.next_u64() & ((1u64 << w) - 1) }).collect();
                for i in 0..rows {
                    let ch = *r.pick(&pool);
                    m.r[i] |= ch << lo;
                }
            }
            m
        }
        "invertible" => {
            cols = rows;
            let mut m = F2::identity(rows);
            scramble_rows(r, &mut m, 4 * rows + 1);
            m
        }
        "permuted-triangular" => {
            cols = rows;
            let mut perm: Vec<usize> = (0..rows).collect();
            r.shuffle(&mut perm);
            let upper = r.chance(0.5);
            let unit_diag = r.chance(0.7);
            let mut tri = F2::zeros(rows, rows);
            for i in 0..rows {
                for j in 0..rows {
                    let inside = if upper { j > i } else { j < i };
                    if (i == j && (unit_diag || r.chance(0.7))) || (inside && r.chance(0.5)) {
                        tri.set(i, j, true);
                    }
                }
            }
            F2 { rows, cols: rows, r: perm.iter().map(|&i| tri.r[i]).collect() }
        }
        _ => {
            // "corank-one": invertible, then one row replaced by a combination of the others
            rows = rows.max(2);
            cols = rows;
            let mut m = F2::identity(rows);
            scramble_rows(r, &mut m, 4 * rows + 1);
            let z = r.below(rows);
            let mut v = 0u64;
            for i in 0..rows {
                if i != z && r.chance(0.5) {
                    v ^= m.r[i];
                }
            }
            m.r[z] = v;
            m
        }
    };
    debug_assert!(m.rows == rows && m.cols == cols);
    (m, class)
}

// ----------------------------------------------------------------------------------------
// algebraic laws
// ----------------------------------------------------------------------------------------

fn same(q: &Mat2, f: &F2) -> Result<(), String> {
    if f.rows == 0 {
        return if q.num_rows() == 0 { Ok(()) } else { Err(format!("expected 0 rows, got {}", q.num_rows())) };
    }
    match of_mat2(q, f.rows, f.cols) {
        Ok(x) if x == *f => Ok(()),
        Ok(x) => Err(format!("observed {} expected {}", x.to_json(), f.to_json())),
        Err(e) => Err(e),
    }
}

/// All laws on one tuple: a (r x k), b, b2 (k x c), cc (c x d), d (r x k), e (r x k2), f (r2 x k).
#[allow(clippy::too_many_arguments)]
fn check_algebra(family: &'static str, index: u64, a: &F2, b: &F2, b2: &F2, cc: &F2, d: &F2, e: &F2, f: &F2, st: &mut Stats) {
    let c = ctx();
    let inputs = json!({"a": a.to_json(), "b": b.to_json(), "b2": b2.to_json(), "c": cc.to_json(), "d": d.to_json(), "e": e.to_json(), "f": f.to_json()});
    let (qa, qb, qb2, qc, qd, qe, qf) = (to_mat2(a), to_mat2(b), to_mat2(b2), to_mat2(cc), to_mat2(d), to_mat2(e), to_mat2(f));
    let mut law = |sig: &str, what: &str, got: Result<Result<(), String>, Caught>| {
        st.add(&format!("law:{sig}"), 1);
        match got {
            Ok(Ok(())) => {}
            Ok(Err(why)) => c.violation(sig, family, index, json!({"what": what, "why": why, "inputs": inputs})),
            Err(Caught::Oracle(m)) => c.inconclusive("oracle-error", json!({"msg": m})),
            Err(p) => c.violation(&format!("{sig}|panic|{}", p.site()), family, index, json!({"what": what, "panic": p.text(), "inputs": inputs})),
        }
    };
    // transpose
    law("transpose|differs-from-oracle", "a^T", guarded(|| same(&qa.transpose(), &a.transpose())));
    law("transpose|not-involutive", "(a^T)^T == a", guarded(|| same(&qa.transpose().transpose(), a)));
    // stacking
    law("vstack|differs-from-oracle", "vstack(a, f)", guarded(|| same(&qa.vstack(&qf), &a.vstack(f))));
    law("hstack|differs-from-oracle", "hstack(a, e)", guarded(|| same(&qa.hstack(&qe), &a.hstack(e))));
    law("vstack|transpose-law", "vstack(a,f)^T == hstack(a^T, f^T)", guarded(|| {
        let l = qa.vstack(&qf).transpose();
        let r = qa.transpose().hstack(&qf.transpose());
        if l == r { Ok(()) } else { Err(format!("{l:?} vs {r:?}")) }
    }));
    law("hstack|transpose-law", "hstack(a,e)^T == vstack(a^T, e^T)", guarded(|| {
        let l = qa.hstack(&qe).transpose();
        let r = qa.transpose().vstack(&qe.transpose());
        if l == r { Ok(()) } else { Err(format!("{l:?} vs {r:?}")) }
    }));
    law("vstack|associativity", "vstack(vstack(a,d),f) == vstack(a,vstack(d,f))", guarded(|| {
        let l = qa.vstack(&qd).vstack(&qf);
        let r = qa.vstack(&qd.vstack(&qf));
        if l == r { Ok(()) } else { Err(format!("{l:?} vs {r:?}")) }
    }));
    // multiplication: four impls against the oracle
    let ab = a.mul(b);
    law("mul|ref-ref-differs-from-oracle", "&a * &b", guarded(|| same(&(&qa * &qb), &ab)));
    law("mul|ref-owned-differs-from-oracle", "&a * b", guarded(|| same(&(&qa * qb.clone()), &ab)));
    law("mul|owned-ref-differs-from-oracle", "a * &b", guarded(|| same(&(qa.clone() * &qb), &ab)));
    law("mul|owned-owned-differs-from-oracle", "a * b", guarded(|| same(&(qa.clone() * qb.clone()), &ab)));
    law("mul|associativity", "(a*b)*c == a*(b*c)", guarded(|| {
        let l = &(&qa * &qb) * &qc;
        let r = &qa * &(&qb * &qc);
        if l == r { Ok(()) } else { Err(format!("{l:?} vs {r:?}")) }
    }));
    law("mul|transpose-law", "(a*b)^T == b^T * a^T", guarded(|| {
        let l = (&qa * &qb).transpose();
        let r = &qb.transpose() * &qa.transpose();
        if l == r { Ok(()) } else { Err(format!("{l:?} vs {r:?}")) }
    }));
    law("mul|identity-law", "a * id == a == id * a", guarded(|| {
        let l = &qa * &Mat2::id(a.cols);
        let r = &Mat2::id(a.rows) * &qa;
        if l == qa && r == qa { Ok(()) } else { Err(format!("{l:?} / {r:?} vs {qa:?}")) }
    }));
    law("mul|distributes-over-vstack", "vstack(a,d)*b == vstack(a*b, d*b)", guarded(|| {
        let l = &qa.vstack(&qd) * &qb;
        let r = (&qa * &qb).vstack(&(&qd * &qb));
        if l == r { Ok(()) } else { Err(format!("{l:?} vs {r:?}")) }
    }));
    law("mul|distributes-over-hstack", "a*hstack(b,b2) == hstack(a*b, a*b2)", guarded(|| {
        let l = &qa * &qb.hstack(&qb2);
        let r = (&qa * &qb).hstack(&(&qa * &qb2));
        if l == r { Ok(()) } else { Err(format!("{l:?} vs {r:?}")) }
    }));
    law("mul|block-product-law", "hstack(a,d) * vstack(b,b) == (a+d)*b", guarded(|| {
        // hstack(a,d) * vstack(b,b) = a*b + d*b = (a+d)*b ; the sum is taken in the oracle
        let l = &qa.hstack(&qd) * &qb.vstack(&qb);
        let sum = F2 { rows: a.rows, cols: a.cols, r: a.r.iter().zip(d.r.iter()).map(|(x, y)| x ^ y).collect() };
        same(&l, &sum.mul(b))
    }));
    law("rank|product-rank-bound", "rank(a*b) <= min(rank a, rank b); rank(a^T) == rank(a)", guarded(|| {
        let rab = (&qa * &qb).rank();
        let (ra, rb, rat) = (qa.rank(), qb.rank(), qa.transpose().rank());
        if rab <= ra.min(rb) && rat == ra && ra == a.rank() && rb == b.rank() && rab == ab.rank() {
            Ok(())
        } else {
            Err(format!("rank(ab)={rab} rank(a)={ra} rank(b)={rb} rank(a^T)={rat}; oracle {} {} {}", ab.rank(), a.rank(), b.rank()))
        }
    }));
    // constructors
    law("constructors|differ-from-oracle", "zeros/ones/id/unit_vector/build", guarded(|| {
        same(&Mat2::zeros(a.rows, a.cols), &F2::zeros(a.rows, a.cols))?;
        same(&Mat2::ones(a.rows, a.cols), &F2::from_fn(a.rows, a.cols, |_, _| true))?;
        same(&Mat2::id(a.rows), &F2::identity(a.rows))?;
        for i in 0..a.rows {
            same(&Mat2::unit_vector(a.rows, i), &F2::from_fn(a.rows, 1, |x, _| x == i))?;
        }
        same(&Mat2::build(a.rows, a.cols, |i, j| a.get(i, j)), a)?;
        if qa.num_rows() != a.rows || qa.num_cols() != a.cols {
            return Err(format!("num_rows/num_cols = {}x{}", qa.num_rows(), qa.num_cols()));
        }
        Ok(())
    }));
    // inverse laws when a happens to be invertible
    if a.rows == a.cols && a.rank() == a.rows {
        law("inverse|not-involutive", "inverse(inverse(a)) == a", guarded(|| {
            let i1 = qa.inverse().ok_or("inverse(a) is None")?;
            let i2 = i1.inverse().ok_or("inverse(inverse(a)) is None")?;
            if i2 == qa { Ok(()) } else { Err(format!("{i2:?} vs {qa:?}")) }
        }));
        if d.rank() == d.rows && d.rows == d.cols {
            law("inverse|product-law", "inverse(a*d) == inverse(d) * inverse(a)", guarded(|| {
                let l = (&qa * &qd).inverse().ok_or("inverse(a*d) is None")?;
                let r = &qd.inverse().ok_or("inverse(d) is None")? * &qa.inverse().ok_or("inverse(a) is None")?;
                if l == r { Ok(()) } else { Err(format!("{l:?} vs {r:?}")) }
            }));
        }
    }
    c.case(family, if !a.is_zero() && !b.is_zero() { Some(a.hash() ^ b.hash().rotate_left(21) ^ cc.hash().rotate_left(43)) } else { None });
}

/// RowOps / ColOps primitives of Mat2 against the oracle, a random sequence.
fn check_primitives(family: &'static str, index: u64, r: &mut Rng, a: &F2, st: &mut Stats) {
    let c = ctx();
    let mut q = to_mat2(a);
    let mut f = a.clone();
    let mut log = vec![];
    for _ in 0..12 {
        let kind = r.below(4);
        let (n, name) = match kind {
            0 => (a.rows, "row_add"),
            1 => (a.rows, "row_swap"),
            2 => (a.cols, "col_add"),
            _ => (a.cols, "col_swap"),
        };
        let (i, j) = (r.below(n), r.below(n));
        log.push(json!([name, i, j]));
        st.add(&format!("primitive:{name}"), 1);
        let res = guarded(|| match kind {
            0 => q.row_add(i, j),
            1 => q.row_swap(i, j),
            2 => q.col_add(i, j),
            _ => q.col_swap(i, j),
        });
        match kind {
            0 => f.row_add(i, j),
            1 => f.row_swap(i, j),
            2 => f.col_add(i, j),
            _ => f.col_swap(i, j),
        }
        let bad = match res {
            Err(Caught::Oracle(m)) => {
                c.inconclusive("oracle-error", json!({"msg": m}));
                return;
            }
            Err(p) => Some((format!("{name}|panic|{}", p.site()), p.text())),
            Ok(()) => same(&q, &f).err().map(|why| (format!("{name}|differs-from-oracle"), why)),
        };
        if let Some((sig, why)) = bad {
            c.violation(&sig, family, index, json!({"what": "RowOps/ColOps primitive", "start": a.to_json(), "ops": log, "why": why}));
            return;
        }
    }
}

// ----------------------------------------------------------------------------------------
// run
// ----------------------------------------------------------------------------------------

const CHUNK: u64 = 256;

pub fn run() {
    let c = ctx();
    if let Err(e) = crate::oracle::f2::self_test() {
        c.harness_error(&format!("f2 oracle self-test failed: {e}"));
        return;
    }
    let t = c.tier;
    c.set_rule(
        "cases = matrices (families exh-<r>x<c>: every 0/1 matrix of that shape; random: 9 biased classes up to 24x24; degenerate: 0x0 and r x 0) each run through gauss_x for EVERY block size 1..=cols x both modes, gauss x both modes, rank, inverse, nullspace; plus algebra tuples (exhaustive small pairs and random). A matrix case is non-trivial when rank >= 1 and rows >= 2; an algebra tuple when a and b are non-zero; distinct = distinct 64-bit hashes of the matrix (tuple) contents",
    );
    c.assume("oracle O5/f2 (harness/src/oracle/f2.rs) is correct: self-tested at start (elimination vs enumeration of all row combinations for every matrix up to 3x4/4x3 and 300 random up to 9x9); rank and row space are additionally recomputed by enumeration for every monitored matrix with <= 8 rows");
    c.assume("echelon form = zero rows last and leading 1s strictly moving right; reduced = additionally no other 1 in a pivot column");
    c.assume("block sizes are 1..=cols as quantified; blocksize 0 is not a valid call");
    c.assume("0 x n matrices with n > 0 cannot be represented by Mat2 and are not generated; transpose involution is therefore only required for shapes with rows, cols >= 1");

    // ---- exhaustive shapes ----
    let shapes: Vec<(usize, usize)> = {
        let mut v = vec![];
        let (maxd, maxbits) = t.pick((5usize, 16usize), (5usize, 20usize));
        for r in 1..=maxd {
            for cc in 1..=maxd {
                if r * cc <= maxbits {
                    v.push((r, cc));
                }
            }
        }
        // wide/tall strips exercise many blocks with few rows and vice versa
        for s in t.pick(vec![(1usize, 8usize), (8, 1), (2, 6), (6, 2)], vec![(1, 12), (12, 1), (2, 8), (8, 2), (2, 10), (3, 6), (6, 3)]) {
            v.push(s);
        }
        v
    };
    let mut exh = vec![];
    let mut all_done = true;
    for &(rows, cols) in &shapes {
        let space = 1u64 << (rows * cols);
        let nchunks = ((space + CHUNK - 1) / CHUNK) as usize;
        let fam: &'static str = Box::leak(format!("exh-{rows}x{cols}").into_boxed_str());
        let key: &'static str = Box::leak(format!("{rows}x{cols}").into_boxed_str());
        par_cases(fam, nchunks, move |_r, ci| {
            let mut st = Stats::default();
            let x0 = F2::identity(rows);
            let mut n = 0;
            for bits in ci * CHUNK..((ci + 1) * CHUNK).min(space) {
                let m = F2::from_bits(rows, cols, bits);
                check_matrix(&CaseId { family: fam, index: ci, class: "exhaustive" }, &m, &x0, Some(key), &mut st);
                n += 1;
            }
            st.add(&format!("exh:{key}:matrices"), n);
            st.flush();
        });
        let seen = c.get_count(&format!("exh:{key}:matrices"));
        let done = seen == space;
        all_done &= done;
        exh.push(json!({"rows": rows, "cols": cols, "space": space, "matrices_checked": seen, "completed": done,
            "gauss_x_calls": seen * (cols as u64) * 2, "block_sizes": format!("1..={cols}"), "modes": 2}));
    }
    c.extra("exhaustive_shapes", Value::Array(exh));
    // `exhaustive` stays false for the run as a whole (the random families are sampled); the
    // completely enumerated sub-space is described separately
    c.extra("exhaustive", json!(false));
    c.extra("exhaustive_part", json!({"what": "all 0/1 matrices of the listed shapes x all block sizes 1..=cols x both modes", "completed": all_done && c.replay.is_none()}));

    // ---- degenerate shapes ----
    par_cases("degenerate", 5, move |_r, i| {
        let c = ctx();
        let rows = i as usize; // 0x0, 1x0, 2x0, 3x0, 4x0
        let q = Mat2::new(vec![vec![]; rows]);
        let det = json!({"matrix": format!("{rows} x 0")});
        let res = guarded(|| {
            let mut g0 = q.clone();
            let mut g1 = q.clone();
            (g0.gauss(false), g1.gauss(true), q.rank(), q.inverse(), q.nullspace().len(), q.transpose().num_rows())
        });
        match res {
            Err(Caught::Oracle(m)) => c.inconclusive("oracle-error", json!({"msg": m})),
            Err(p) => c.violation(&format!("degenerate-shape|panic|{}", p.site()), "degenerate", i, json!({"what": "panic on an empty matrix", "input": det, "panic": p.text()})),
            Ok((r0, r1, rk, inv, ns, _)) => {
                if r0 != 0 || r1 != 0 || rk != 0 {
                    c.violation("degenerate-shape|rank-nonzero", "degenerate", i, json!({"input": det, "observed": [r0, r1, rk], "expected": 0}));
                }
                if ns != 0 {
                    c.violation("degenerate-shape|nullspace-nonempty", "degenerate", i, json!({"input": det, "observed": ns, "expected": 0}));
                }
                if inv.is_some() != (rows == 0) {
                    c.violation("degenerate-shape|inverse", "degenerate", i, json!({"input": det, "observed_some": inv.is_some(), "expected_some": rows == 0}));
                }
            }
        }
        c.case("degenerate", None);
    });

    // ---- algebra: exhaustive small pairs ----
    let amax = 3usize;
    let abits = t.pick(12usize, 18usize);
    let mut triples = vec![];
    for r_ in 1..=amax {
        for k in 1..=amax {
            for cc in 1..=amax {
                if r_ * k + k * cc <= abits {
                    triples.push((r_, k, cc));
                }
            }
        }
    }
    let mut offsets = vec![0u64];
    for &(r_, k, cc) in &triples {
        offsets.push(offsets.last().unwrap() + (1u64 << (r_ * k + k * cc)));
    }
    let total_pairs = *offsets.last().unwrap();
    let nchunks = ((total_pairs + CHUNK - 1) / CHUNK) as usize;
    let (triples2, offsets2) = (triples.clone(), offsets.clone());
    par_cases("algebra-exhaustive-pairs", nchunks, move |r, ci| {
        let mut st = Stats::default();
        let mut n = 0;
        for g in ci * CHUNK..((ci + 1) * CHUNK).min(total_pairs) {
            let s = offsets2.iter().rposition(|&o| o <= g).unwrap().min(triples2.len() - 1);
            let (r_, k, cc) = triples2[s];
            let bits = g - offsets2[s];
            let a = F2::from_bits(r_, k, bits & ((1u64 << (r_ * k)) - 1));
            let b = F2::from_bits(k, cc, bits >> (r_ * k));
            // the remaining operands are derived deterministically from (a, b)
            let b2 = F2::from_fn(k, cc, |i, j| b.get(i, j) ^ ((i + j) % 2 == 0));
            let c3 = F2::from_fn(cc, 2, |i, j| (i + j) % 2 == 0);
            let d = F2::from_fn(r_, k, |i, j| a.get(i, (j + 1) % k) ^ (i == j));
            let e = F2::from_fn(r_, 2, |i, j| a.get(i, 0) ^ (j == 1));
            let f = F2::from_fn(2, k, |i, j| a.get(0, j) ^ (i == 1 && j == 0));
            check_algebra("algebra-exhaustive-pairs", ci, &a, &b, &b2, &c3, &d, &e, &f, &mut st);
            n += 1;
        }
        let _ = r;
        st.add("algebra:exhaustive_pairs_checked", n);
        st.flush();
    });
    let seen_pairs = c.get_count("algebra:exhaustive_pairs_checked");
    c.extra(
        "algebra_exhaustive",
        json!({"what": "every pair (a: r x k, b: k x c) with r,k,c <= max_dim and r*k + k*c <= max_bits", "max_dim": amax, "max_bits": abits,
               "space": total_pairs, "pairs_checked": seen_pairs, "completed": seen_pairs == total_pairs && c.replay.is_none()}),
    );

    // ---- algebra: random tuples ----
    let n_alg = t.pick(12_000usize, 300_000usize);
    par_cases("algebra-random", n_alg, move |r, i| {
        let mut st = Stats::default();
        let small = r.chance(0.4);
        let dim = |r: &mut Rng| 1 + r.below(if small { 5 } else { 24 });
        let (rr, k, cc, dd, k2, r2) = (dim(r), dim(r), dim(r), dim(r), dim(r), dim(r));
        let p = *r.pick(&[0.1, 0.5, 0.5, 0.9]);
        let square = r.chance(0.3);
        let k = if square { rr } else { k };
        let a = if square && r.chance(0.7) { gen_square_invertible(r, rr) } else { rand_uniform(r, rr, k, p) };
        let b = rand_uniform(r, k, cc, p);
        let b2 = rand_uniform(r, k, cc, 0.5);
        let c3 = rand_uniform(r, cc, dd, p);
        let d = if square && r.chance(0.7) { gen_square_invertible(r, rr) } else { rand_uniform(r, rr, k, 0.5) };
        let e = rand_uniform(r, rr, k2, 0.5);
        let f = rand_uniform(r, r2, k, 0.5);
        check_algebra("algebra-random", i, &a, &b, &b2, &c3, &d, &e, &f, &mut st);
        check_primitives("algebra-random", i, r, &a, &mut st);
        st.flush();
    });
    // ---- random matrices (the bulk of the time; last so that a time cut never starves the other families) ----
    let n_rand = t.pick(60_000usize, 3_000_000usize);
    par_cases("random", n_rand, move |r, i| {
        let mut st = Stats::default();
        let (m, class) = gen_matrix(r, 24);
        let xc = 1 + r.below(6);
        let x0 = if r.chance(0.3) { F2::identity(m.rows) } else { rand_uniform(r, m.rows, xc, 0.5) };
        check_matrix(&CaseId { family: "random", index: i, class }, &m, &x0, None, &mut st);
        st.add(&format!("class:{class}"), 1);
        st.add(&format!("size:rows<={:02}", ((m.rows + 5) / 6) * 6), 1);
        st.add(&format!("size:cols<={:02}", ((m.cols + 5) / 6) * 6), 1);
        if m.rows == 24 || m.cols == 24 {
            st.add("size:dimension-24-reached", 1);
        }
        st.flush();
        ctx().sample_n(5, || json!({"family": "random", "index": i, "class": class, "matrix": m.to_json(), "rank": m.rank(), "proxy_x": x0.to_json()}));
    });
}

fn gen_square_invertible(r: &mut Rng, n: usize) -> F2 {
    let mut m = F2::identity(n);
    scramble_rows(r, &mut m, 4 * n + 1);
    m
}

//! C17 -- monitor (to be written)
use crate::fw::ctx;

pub fn run() {
    ctx().harness_error("C17 monitor not implemented yet");
}

//! Two-oracle cross-check: circuit-shaped diagrams assembled by the harness's own
//! circuit->diagram builder must evaluate (O2) to the simulator's tensor (O3). No quizx
//! code is involved, so this validates the two oracles against each other.

use crate::gen::circuit::{gen_circuit, CircParams, PhPool};
use crate::gen::prng::Rng;
use crate::oracle::eval::{eval_exact, Diag, EK, VK};
use crate::oracle::ring::{Num, R};
use crate::oracle::sim::{tensor_exact, Circ, G};

/// Build a diagram for a circuit over {rz,rx,x,z,s,t,sdg,tdg,h,cx,cz,swap} with the
/// textbook translation; returns (diagram, scalar).
pub fn build(c: &Circ) -> Option<(Diag, R)> {
    let mut verts: Vec<(usize, VK, i64, i64)> = vec![];
    let mut edges: Vec<(usize, usize, EK)> = vec![];
    let mut scalar = R::one();
    let mut inputs = vec![];
    // last[q] = (vertex, pending edge kind)
    let mut last: Vec<(usize, EK)> = vec![];
    for _ in 0..c.n {
        let v = verts.len();
        verts.push((v, VK::B, 0, 1));
        inputs.push(v);
        last.push((v, EK::N));
    }
    let mut spider = |verts: &mut Vec<(usize, VK, i64, i64)>, edges: &mut Vec<(usize, usize, EK)>, last: &mut Vec<(usize, EK)>, q: usize, k: VK, ph: (i64, i64)| -> usize {
        let v = verts.len();
        verts.push((v, k, ph.0, ph.1));
        edges.push((last[q].0, v, last[q].1));
        last[q] = (v, EK::N);
        v
    };
    for g in &c.gates {
        match g {
            G::Rz(q, p) => {
                spider(&mut verts, &mut edges, &mut last, *q, VK::Z, *p);
            }
            G::Rx(q, p) => {
                spider(&mut verts, &mut edges, &mut last, *q, VK::X, *p);
            }
            G::X(q) => {
                spider(&mut verts, &mut edges, &mut last, *q, VK::X, (1, 1));
            }
            G::Z(q) => {
                spider(&mut verts, &mut edges, &mut last, *q, VK::Z, (1, 1));
            }
            G::S(q) => {
                spider(&mut verts, &mut edges, &mut last, *q, VK::Z, (1, 2));
            }
            G::Sdg(q) => {
                spider(&mut verts, &mut edges, &mut last, *q, VK::Z, (-1, 2));
            }
            G::T(q) => {
                spider(&mut verts, &mut edges, &mut last, *q, VK::Z, (1, 4));
            }
            G::Tdg(q) => {
                spider(&mut verts, &mut edges, &mut last, *q, VK::Z, (-1, 4));
            }
            G::H(q) => {
                last[*q].1 = if last[*q].1 == EK::N { EK::H } else { EK::N };
            }
            G::Cx(a, b) => {
                let va = spider(&mut verts, &mut edges, &mut last, *a, VK::Z, (0, 1));
                let vb = spider(&mut verts, &mut edges, &mut last, *b, VK::X, (0, 1));
                edges.push((va, vb, EK::N));
                scalar = scalar.mul(&R::sqrt2_pow(1));
            }
            G::Cz(a, b) => {
                let va = spider(&mut verts, &mut edges, &mut last, *a, VK::Z, (0, 1));
                let vb = spider(&mut verts, &mut edges, &mut last, *b, VK::Z, (0, 1));
                edges.push((va, vb, EK::H));
                scalar = scalar.mul(&R::sqrt2_pow(1));
            }
            G::Swap(a, b) => {
                last.swap(*a, *b);
            }
            _ => return None,
        }
    }
    let mut outputs = vec![];
    for q in 0..c.n {
        let v = verts.len();
        verts.push((v, VK::B, 0, 1));
        edges.push((last[q].0, v, last[q].1));
        outputs.push(v);
    }
    Some((Diag { verts, edges, inputs, outputs }, scalar))
}

pub fn self_test() -> Result<(), String> {
    let p = CircParams {
        min_qubits: 1,
        max_qubits: 3,
        max_depth: 12,
        pool: PhPool::Exact,
        clifford_t: true,
        rotations: true,
        swap: true,
        xcx: false,
        ccz: false,
        pp: false,
        ancilla: false,
        measure: false,
    };
    for i in 0..60u64 {
        let mut r = Rng::for_case(12345, "selftest", "cross", i);
        let c = gen_circuit(&mut r, &p);
        let Some((d, s)) = build(&c) else { continue };
        let t2 = eval_exact(&d, &s).map_err(|e| format!("{e:?}"))?;
        let (t3, _, _) = tensor_exact(&c);
        if t2 != t3 {
            return Err(format!("O2 != O3 on {c:?}"));
        }
    }
    Ok(())
}

//! C20 -- monitor (to be written)
use crate::fw::ctx;

pub fn run() {
    ctx().harness_error("C20 monitor not implemented yet");
}

//! C20 -- detection webs returned for a Pauli diagram are valid, independent and complete,
//! whatever the vertex numbering; inputs/outputs are restored.
//!
//! Events: each generated diagram (Z/X spiders with phase 0 or pi, plain edges, 0-4
//! boundaries attached to spiders) is built in `hash_graph::Graph` under several vertex
//! numberings (boundaries first / last / interleaved / random permutation / random ids
//! with gaps / boundaries first with shuffled spiders) and the REAL
//! `quizx::detection_webs::detection_webs` is run on every build.
//!
//! Oracle (independent of quizx, `oracle::f2small` for the F2 algebra):
//! * the harness computes its own bipartite form of the diagram description (every
//!   same-colour spider-spider edge subdivided by one phase-free spider of the other
//!   colour) -- the "canonical diagram" with canonical edge labels; the diagram as left
//!   by the routine must be exactly this diagram under the label map (original ids ->
//!   description indices, new vertices -> the edge they subdivide). All checks on webs
//!   are made on that left-behind diagram through this label map;
//! * web space = solutions of the EDGE-based linear system on the canonical diagram:
//!   unknowns x_e, z_e per edge; boundary edges: x_e = z_e = 0; Z spider: all incident
//!   x_e equal, sum of incident z_e = 0; X spider: all incident z_e equal, sum of
//!   incident x_e = 0. dim = 2|E| - rank. The same system on the ORIGINAL (not
//!   subdivided) diagram must give the same dimension (oracle cross-check), and for
//!   <= 12 spiders a brute-force enumeration of all firing sets of the canonical diagram
//!   must give 2^dim distinct valid webs (oracle cross-check + membership test);
//! * every returned web: marks only existing edges, marks no boundary edge, satisfies
//!   the spider constraints; the returned webs are linearly independent (rank of their
//!   2|E|-bit vectors), their number equals dim, each lies in the brute-force set;
//!   the spans obtained under different numberings coincide in canonical labels;
//!   `inputs()` / `outputs()` afterwards equal the lists before the call.
//!
//! Reading fixed here: "own colour's Pauli" of a spider is the Pauli that the code draws
//! in the spider's colour and that the spider's firing generates: Pauli X (green) for a
//! Z (green) spider, Pauli Z (red) for an X (red) spider; Y counts as both. This is the
//! stabiliser condition of a Pauli-phase spider (Z spider: X on all legs or none, Z on an
//! even number of legs) and is the reading under which the implemented convention
//! (`pw`: fired Z spider -> Pauli::X on its legs) is correct.
//!
//! Only the first failing check of one (diagram, numbering) execution is reported, in the
//! order panic, left-behind diagram, web validity, independence, count, membership, so
//! that one root cause gives one signature. The signature's third field states the input
//! feature relevant for the failure class: for linear dependence whether the diagram has a
//! spider without legs, for everything else whether some boundary has a larger id than
//! some spider.

use crate::fw::{ctx, guarded, par_cases, Caught};
use crate::gen::prng::{hash_bytes, Rng};
use crate::oracle::f2small::{self as f2, Row};
use quizx::detection_webs::{detection_webs, Pauli};
use quizx::graph::{EType, GraphLike, VData, VType, V};
use quizx::hash_graph::Graph;
use quizx::phase::Phase;
use serde_json::{json, Value};
use std::collections::{HashMap, HashSet};

fn ph_zero() -> Phase {
    Phase::new(num::Rational64::new(0, 1))
}
fn ph_pi() -> Phase {
    Phase::new(num::Rational64::new(1, 1))
}

#[derive(Clone, Debug)]
pub struct WDesc {
    /// (is_x, phase is pi)
    pub spiders: Vec<(bool, bool)>,
    /// plain edges between spiders i < j, at most one per pair
    pub edges: Vec<(usize, usize)>,
    /// (spider the boundary is attached to, is_input)
    pub bnds: Vec<(usize, bool)>,
}

impl WDesc {
    fn ns(&self) -> usize {
        self.spiders.len()
    }
    fn nb(&self) -> usize {
        self.bnds.len()
    }
    fn to_json(&self) -> Value {
        json!({
            "spiders": self.spiders.iter().map(|s| json!([if s.0 { "X" } else { "Z" }, if s.1 { "pi" } else { "0" }])).collect::<Vec<_>>(),
            "plain_edges_between_spiders": self.edges,
            "boundaries": self.bnds.iter().map(|b| json!([b.0, if b.1 { "input" } else { "output" }])).collect::<Vec<_>>(),
            "note": "abstract vertex k < #spiders is spider k; abstract vertex #spiders + j is boundary j",
        })
    }
    fn hash(&self) -> u64 {
        hash_bytes(format!("{self:?}").as_bytes())
    }
    fn has_isolated_spider(&self) -> bool {
        (0..self.ns()).any(|s| !self.edges.iter().any(|e| e.0 == s || e.1 == s) && !self.bnds.iter().any(|b| b.0 == s))
    }
}

/// plain graph with vertex kinds 0 = boundary, 1 = Z, 2 = X
#[derive(Clone, Debug)]
struct PG {
    kind: Vec<u8>,
    edges: Vec<(usize, usize)>,
}

impl PG {
    fn incident(&self, v: usize) -> Vec<usize> {
        self.edges.iter().enumerate().filter(|(_, e)| e.0 == v || e.1 == v).map(|(i, _)| i).collect()
    }
    fn is_boundary_edge(&self, e: usize) -> bool {
        let (a, b) = self.edges[e];
        self.kind[a] == 0 || self.kind[b] == 0
    }
    /// equations of the edge-based system; unknown 2e = x_e, 2e+1 = z_e
    fn equations(&self) -> (Vec<Row>, usize) {
        let cols = 2 * self.edges.len();
        let mut eqs: Vec<Row> = vec![];
        for e in 0..self.edges.len() {
            if self.is_boundary_edge(e) {
                for k in 0..2 {
                    let mut r = f2::zero_row(cols);
                    f2::set(&mut r, 2 * e + k, true);
                    eqs.push(r);
                }
            }
        }
        for v in 0..self.kind.len() {
            if self.kind[v] == 0 {
                continue;
            }
            let inc = self.incident(v);
            // own = bit offset of the Pauli of the spider's own colour (X for a Z spider)
            let (own, other) = if self.kind[v] == 1 { (0, 1) } else { (1, 0) };
            for w in inc.windows(2) {
                let mut r = f2::zero_row(cols);
                f2::set(&mut r, 2 * w[0] + own, true);
                f2::set(&mut r, 2 * w[1] + own, true);
                eqs.push(r);
            }
            if !inc.is_empty() {
                let mut r = f2::zero_row(cols);
                for &e in &inc {
                    f2::set(&mut r, 2 * e + other, true);
                }
                eqs.push(r);
            }
        }
        (eqs, cols)
    }
    fn web_space_dim(&self) -> usize {
        let (eqs, cols) = self.equations();
        f2::nullity(&eqs, cols)
    }
    /// check the defining constraints directly (not through the equations above)
    fn check_web(&self, w: &Row) -> Result<(), (&'static str, String)> {
        for e in 0..self.edges.len() {
            if self.is_boundary_edge(e) && (f2::get(w, 2 * e) || f2::get(w, 2 * e + 1)) {
                return Err(("boundary-edge-marked", format!("canonical edge {:?}", self.edges[e])));
            }
        }
        for v in 0..self.kind.len() {
            if self.kind[v] == 0 {
                continue;
            }
            let inc = self.incident(v);
            let (own, other) = if self.kind[v] == 1 { (0, 1) } else { (1, 0) };
            let n_own = inc.iter().filter(|&&e| f2::get(w, 2 * e + own)).count();
            let n_other = inc.iter().filter(|&&e| f2::get(w, 2 * e + other)).count();
            if n_own != 0 && n_own != inc.len() {
                return Err(("own-colour-pauli-neither-all-nor-none", format!("canonical vertex {v}: {n_own} of {} legs", inc.len())));
            }
            if n_other % 2 != 0 {
                return Err(("other-colour-pauli-on-odd-number-of-legs", format!("canonical vertex {v}: {n_other} of {} legs", inc.len())));
            }
        }
        Ok(())
    }
}

/// The harness's own bipartite form and the label bookkeeping.
struct Canon {
    pg: PG,
    /// same-colour spider edge (i<j) -> canonical vertex of the subdividing spider
    mid_of: HashMap<(usize, usize), usize>,
    edge_index: HashMap<(usize, usize), usize>,
    original: PG,
}

fn canon(d: &WDesc) -> Canon {
    let (ns, nb) = (d.ns(), d.nb());
    let mut kind: Vec<u8> = d.spiders.iter().map(|s| if s.0 { 2 } else { 1 }).collect();
    kind.extend(std::iter::repeat(0u8).take(nb));
    let mut original = PG { kind: kind.clone(), edges: d.edges.clone() };
    let mut edges: Vec<(usize, usize)> = vec![];
    let mut mid_of = HashMap::new();
    for &(i, j) in &d.edges {
        if d.spiders[i].0 == d.spiders[j].0 {
            let m = kind.len();
            kind.push(if d.spiders[i].0 { 1 } else { 2 });
            mid_of.insert((i, j), m);
            edges.push((i, m));
            edges.push((j, m));
        } else {
            edges.push((i, j));
        }
    }
    for (k, b) in d.bnds.iter().enumerate() {
        edges.push((b.0, ns + k));
        original.edges.push((b.0, ns + k));
    }
    let edge_index = edges.iter().enumerate().map(|(i, &(a, b))| ((a.min(b), a.max(b)), i)).collect();
    Canon { pg: PG { kind, edges }, mid_of, edge_index, original }
}

/// all webs generated by firing sets of the (bipartite) canonical diagram that satisfy the constraints
fn brute_force_webs(pg: &PG) -> HashSet<Row> {
    let spiders: Vec<usize> = (0..pg.kind.len()).filter(|&v| pg.kind[v] != 0).collect();
    let cols = 2 * pg.edges.len();
    let mut out = HashSet::new();
    for mask in 0..(1usize << spiders.len()) {
        let mut fired = vec![false; pg.kind.len()];
        for (i, &s) in spiders.iter().enumerate() {
            fired[s] = (mask >> i) & 1 == 1;
        }
        let mut w = f2::zero_row(cols);
        for (e, &(a, b)) in pg.edges.iter().enumerate() {
            for v in [a, b] {
                if fired[v] {
                    // a fired Z spider puts Pauli X on its legs, a fired X spider Pauli Z
                    f2::flip(&mut w, 2 * e + if pg.kind[v] == 1 { 0 } else { 1 });
                }
            }
        }
        if pg.check_web(&w).is_ok() {
            out.insert(w);
        }
    }
    out
}

// --------------------------------------------------------------------------------------
// numberings and builds
// --------------------------------------------------------------------------------------

const NUMBERINGS: [&str; 8] = ["boundaries-first", "boundaries-last", "interleaved", "random-permutation", "random-ids-with-gaps", "boundaries-first-spiders-shuffled", "some-ids-above-2^32", "random-permutation-built-with-detours"];

/// ids[abstract vertex] = vertex id in the build
fn numbering(which: usize, d: &WDesc, r: &mut Rng) -> Vec<V> {
    let (ns, nb) = (d.ns(), d.nb());
    let n = ns + nb;
    let mut ids = vec![0usize; n];
    match which {
        0 => {
            for k in 0..nb {
                ids[ns + k] = k;
            }
            for s in 0..ns {
                ids[s] = nb + s;
            }
        }
        1 => {
            for (a, id) in ids.iter_mut().enumerate() {
                *id = a;
            }
        }
        2 => {
            // s0 b0 s1 b1 ...
            let mut order = vec![];
            for k in 0..ns.max(nb) {
                if k < ns {
                    order.push(k);
                }
                if k < nb {
                    order.push(ns + k);
                }
            }
            for (id, a) in order.into_iter().enumerate() {
                ids[a] = id;
            }
        }
        3 | 7 => {
            let mut order: Vec<usize> = (0..n).collect();
            r.shuffle(&mut order);
            for (id, a) in order.into_iter().enumerate() {
                ids[a] = id;
            }
        }
        4 => {
            let mut pool: Vec<usize> = (0..(3 * n + 2)).collect();
            r.shuffle(&mut pool);
            ids[..n].copy_from_slice(&pool[..n]);
        }
        6 => {
            // a random permutation of 0..n, then about a third of the vertices are moved to
            // 2^32 + (a small id in use elsewhere, or their own): ids that agree in their low
            // 32 bits, which named insertion in the hash backend allows
            let mut order: Vec<usize> = (0..n).collect();
            r.shuffle(&mut order);
            for (id, a) in order.into_iter().enumerate() {
                ids[a] = id;
            }
            let mut used_low: HashSet<usize> = HashSet::new();
            for a in 0..n {
                if r.chance(0.35) {
                    let low = if r.chance(0.7) { r.below(n.max(1)) } else { ids[a] };
                    if used_low.insert(low) {
                        ids[a] = (1usize << 32) + low;
                    }
                }
            }
        }
        _ => {
            for k in 0..nb {
                ids[ns + k] = k;
            }
            let mut order: Vec<usize> = (0..ns).collect();
            r.shuffle(&mut order);
            for (pos, s) in order.into_iter().enumerate() {
                ids[s] = nb + pos;
            }
        }
    }
    ids
}

/// `detours`: the same diagram reached by a longer history - extra spiders wired in and
/// removed again (an older one before the newest, or the other way round), and an insertion
/// under a name that is already taken (rejected, must change nothing).
fn build_with(d: &WDesc, ids: &[V], detours: bool) -> Graph {
    let mut g = build(d, ids);
    if detours && d.ns() > 0 {
        let (ins, outs) = (g.inputs().clone(), g.outputs().clone());
        let some = ids[0];
        let other = ids[d.ns() - 1];
        let k = ids.iter().map(|&x| x as u64).sum::<u64>();
        let a = g.add_vertex(VType::Z);
        g.add_edge(a, some);
        let b = g.add_vertex(VType::X);
        g.add_edge(b, other);
        g.add_edge(a, b);
        let c = g.add_vertex(VType::Z);
        g.add_edge(c, a);
        // a name that is taken by a spider with edges
        let _ = g.add_named_vertex_with_data(some, VData { ty: VType::X, ..Default::default() });
        let order: [V; 3] = match k % 3 {
            0 => [a, c, b],
            1 => [c, b, a],
            _ => [b, a, c],
        };
        for v in order {
            g.remove_vertex(v);
        }
        if k % 2 == 0 {
            // and once more: the id counter after the removals is whatever the backend made of it
            let e = g.add_vertex(VType::Z);
            g.add_edge(e, other);
            g.remove_vertex(e);
        }
        g.set_inputs(ins);
        g.set_outputs(outs);
    }
    g
}

fn build(d: &WDesc, ids: &[V]) -> Graph {
    let ns = d.ns();
    let n = ns + d.nb();
    let mut g = Graph::new();
    let mut order: Vec<usize> = (0..n).collect();
    order.sort_by_key(|&a| ids[a]);
    let contiguous = order.iter().enumerate().all(|(k, &a)| ids[a] == k);
    for &a in &order {
        let data = if a < ns {
            let (is_x, pi) = d.spiders[a];
            VData { ty: if is_x { VType::X } else { VType::Z }, phase: if pi { ph_pi() } else { ph_zero() }, ..Default::default() }
        } else {
            VData { ty: VType::B, ..Default::default() }
        };
        // contiguous numberings go through the allocating call as long as the backend happens
        // to hand out exactly these ids (its allocation policy is its own business), otherwise -
        // and for all other numberings - through named insertion
        if contiguous && g.vindex() == ids[a] {
            let v = g.add_vertex_with_data(data.clone());
            if v != ids[a] {
                g.remove_vertex(v);
                g.add_named_vertex_with_data(ids[a], data).expect("harness: named vertex insertion failed");
            }
        } else {
            g.add_named_vertex_with_data(ids[a], data).expect("harness: named vertex insertion failed");
        }
    }
    for &(i, j) in &d.edges {
        g.add_edge(ids[i], ids[j]);
    }
    let (mut ins, mut outs) = (vec![], vec![]);
    for (k, b) in d.bnds.iter().enumerate() {
        g.add_edge(ids[b.0], ids[ns + k]);
        if b.1 {
            ins.push(ids[ns + k]);
        } else {
            outs.push(ids[ns + k]);
        }
    }
    g.set_inputs(ins);
    g.set_outputs(outs);
    g
}

fn graph_dump(g: &Graph) -> Value {
    let mut vs: Vec<(V, String, String)> = g.vertices().map(|v| (v, format!("{:?}", g.vertex_type(v)), format!("{}", g.phase(v).to_rational()))).collect();
    vs.sort();
    let mut es: Vec<(V, V, String)> = g.edges().map(|(a, b, t)| (a.min(b), a.max(b), format!("{t:?}"))).collect();
    es.sort();
    json!({"vertices": vs, "edges": es, "inputs": g.inputs(), "outputs": g.outputs()})
}

/// Map the diagram left by the routine onto the canonical diagram. Returns
/// id -> canonical vertex, or a (class, explanation) pair.
fn map_left_diagram(g: &Graph, d: &WDesc, cz: &Canon, ids: &[V]) -> Result<HashMap<V, usize>, (&'static str, String)> {
    let ns = d.ns();
    let mut to_canon: HashMap<V, usize> = HashMap::new();
    for (a, &id) in ids.iter().enumerate() {
        if !g.contains_vertex(id) {
            return Err(("original-vertex-removed", format!("vertex {id}")));
        }
        let expect_ty = match cz.pg.kind[a] {
            0 => VType::B,
            1 => VType::Z,
            _ => VType::X,
        };
        let expect_ph = if a < ns && d.spiders[a].1 { ph_pi() } else { ph_zero() };
        if g.vertex_type(id) != expect_ty || g.phase(id) != expect_ph {
            return Err(("original-vertex-changed", format!("vertex {id}: {:?} phase {}", g.vertex_type(id), g.phase(id).to_rational())));
        }
        to_canon.insert(id, a);
    }
    let mut used_mids = HashSet::new();
    let news: Vec<V> = g.vertices().filter(|v| !to_canon.contains_key(v)).collect();
    for m in news {
        let nb: Vec<V> = g.neighbors(m).collect();
        if nb.len() != 2 {
            return Err(("new-vertex-degree", format!("new vertex {m} has {} neighbours", nb.len())));
        }
        let (Some(&a), Some(&b)) = (to_canon.get(&nb[0]), to_canon.get(&nb[1])) else {
            return Err(("new-vertex-next-to-new-vertex", format!("new vertex {m}")));
        };
        let key = (a.min(b), a.max(b));
        let Some(&cm) = cz.mid_of.get(&key) else {
            return Err(("new-vertex-not-on-a-same-colour-edge", format!("new vertex {m} between ids {} and {}", nb[0], nb[1])));
        };
        let expect_ty = if cz.pg.kind[cm] == 1 { VType::Z } else { VType::X };
        if g.vertex_type(m) != expect_ty || g.phase(m) != ph_zero() {
            return Err(("new-vertex-kind-or-phase", format!("new vertex {m}: {:?} phase {}", g.vertex_type(m), g.phase(m).to_rational())));
        }
        if !used_mids.insert(cm) {
            return Err(("edge-subdivided-twice", format!("new vertex {m}")));
        }
        to_canon.insert(m, cm);
    }
    let mut seen = HashSet::new();
    for (s, t, et) in g.edges() {
        if et != EType::N {
            return Err(("edge-type-changed", format!("edge ({s},{t}) is {et:?}")));
        }
        let (a, b) = (to_canon[&s], to_canon[&t]);
        match cz.edge_index.get(&(a.min(b), a.max(b))) {
            Some(&e) => {
                seen.insert(e);
            }
            None => return Err(("unexpected-edge", format!("edge ({s},{t})"))),
        }
    }
    if seen.len() != cz.pg.edges.len() || g.num_edges() != cz.pg.edges.len() {
        return Err(("edge-missing", format!("{} of {} expected edges present", seen.len(), cz.pg.edges.len())));
    }
    Ok(to_canon)
}

/// Third signature field for every failure class that can depend on the node order:
/// does some boundary have a larger id than some spider?
fn cond_numbering(d: &WDesc, ids: &[V]) -> &'static str {
    let ns = d.ns();
    let bnd_max = ids[ns..].iter().max();
    let sp_min = ids[..ns].iter().min();
    let bnd_lowest = match (bnd_max, sp_min) {
        (Some(b), Some(s)) => b < s,
        _ => true,
    };
    if bnd_lowest {
        "boundaries-have-the-lowest-ids"
    } else {
        "boundary-id-above-a-spider-id"
    }
}

/// Third signature field for linear dependence (wrong whatever the numbering is): does the
/// diagram contain a spider without legs?
fn cond_isolated(d: &WDesc) -> &'static str {
    if d.has_isolated_spider() {
        "isolated-spider"
    } else {
        "no-isolated-spider"
    }
}

/// Run the routine on one build. Returns the canonical web rows when every check passed.
#[allow(clippy::too_many_arguments)]
fn run_one(family: &'static str, index: u64, d: &WDesc, cz: &Canon, dim: usize, bf: Option<&HashSet<Row>>, which: usize, ids: &[V]) -> Option<Vec<Row>> {
    let c = ctx();
    let name = NUMBERINGS[which];
    let cond = cond_numbering(d, ids);
    let cond_iso = cond_isolated(d);
    c.count(&format!("run:{name}"), 1);
    // detours on the permuted numbering, and on every other case of the numbering with gaps
    // (where the number of vertices is itself an id that may be in use)
    let mut g = build_with(d, ids, which == 7 || (which == 4 && index % 2 == 1));
    let before = graph_dump(&g);
    let (ins0, outs0) = (g.inputs().clone(), g.outputs().clone());
    let detail = |what: &str, extra: Value| {
        json!({"what": what, "diagram": d.to_json(), "numbering": name, "vertex_id_of_abstract_vertex": ids, "graph_before": before, "extra": extra,
               "expected_web_space_dimension": dim})
    };
    let res = guarded(|| detection_webs(&mut g));
    let webs = match res {
        Ok(w) => w,
        Err(Caught::Oracle(m)) => {
            c.inconclusive("oracle-error", json!({"msg": m}));
            return None;
        }
        Err(e) => {
            c.count(&format!("panic:{name}"), 1);
            c.violation(&format!("detection_webs|panic:{}|{cond}", e.site()), family, index, detail("panic", json!({"panic": e.text(), "graph_after": graph_dump(&g)})));
            return None;
        }
    };
    let after = graph_dump(&g);
    // inputs / outputs restored (independent of the other checks)
    let io_ok = *g.inputs() == ins0 && *g.outputs() == outs0;
    if !io_ok {
        c.violation(
            &format!("detection_webs|inputs-outputs-not-restored|{cond}"),
            family,
            index,
            detail("inputs/outputs differ after the call", json!({"expected": {"inputs": ins0, "outputs": outs0}, "observed": {"inputs": g.inputs(), "outputs": g.outputs()}})),
        );
    }
    // the diagram as left by the routine
    let to_canon = match map_left_diagram(&g, d, cz, ids) {
        Ok(m) => m,
        Err((class, why)) => {
            c.violation(&format!("make_bipartite|left-diagram-is-not-the-subdivided-input:{class}|{cond}"), family, index, detail("diagram left by the routine", json!({"why": why, "graph_after": after})));
            return None;
        }
    };
    c.count("new-vertices-inserted", (g.num_vertices() - ids.len()) as u64);
    // webs -> canonical bit rows
    let cols = 2 * cz.pg.edges.len();
    let mut rows: Vec<Row> = vec![];
    let web_json = |w: &quizx::detection_webs::PauliWeb| {
        let mut v: Vec<(usize, usize, String)> = w.edge_operators.iter().map(|(k, p)| (k.0, k.1, format!("{p:?}"))).collect();
        v.sort();
        json!(v)
    };
    let all_webs = || json!(webs.iter().map(&web_json).collect::<Vec<_>>());
    for w in &webs {
        let mut row = f2::zero_row(cols);
        for (&(a, b), p) in w.edge_operators.iter() {
            let e = match (to_canon.get(&a), to_canon.get(&b)) {
                (Some(&ca), Some(&cb)) => cz.edge_index.get(&(ca.min(cb), ca.max(cb))).copied(),
                _ => None,
            };
            let Some(e) = e else {
                c.violation(
                    &format!("detection_webs|web-marks-a-non-edge|{cond}"),
                    family,
                    index,
                    detail("web marks a pair of vertices that is not an edge", json!({"pair": [a, b], "web": web_json(w), "graph_after": after})),
                );
                return None;
            };
            match p {
                Pauli::X => f2::set(&mut row, 2 * e, true),
                Pauli::Z => f2::set(&mut row, 2 * e + 1, true),
                Pauli::Y => {
                    f2::set(&mut row, 2 * e, true);
                    f2::set(&mut row, 2 * e + 1, true);
                }
            }
            c.count(&format!("marks:{p:?}"), 1);
        }
        if let Err((class, why)) = cz.pg.check_web(&row) {
            c.violation(
                &format!("detection_webs|invalid-web:{class}|{cond}"),
                family,
                index,
                detail("returned web violates the defining constraints", json!({"why": why, "web": web_json(w), "all_webs": all_webs(), "graph_after": after})),
            );
            return None;
        }
        rows.push(row);
    }
    c.count("webs-checked", rows.len() as u64);
    let rk = f2::rank(&rows, cols);
    if rk != rows.len() {
        let empties = rows.iter().filter(|r| f2::is_zero(r)).count();
        c.violation(
            &format!("detection_webs|webs-linearly-dependent:{}|{cond_iso}", if empties > 0 { "empty-web-returned" } else { "non-trivial-relation" }),
            family,
            index,
            detail("returned webs are not linearly independent over F2", json!({"returned": rows.len(), "rank": rk, "empty_webs": empties, "webs": all_webs(), "graph_after": after})),
        );
        return None;
    }
    if rows.len() != dim {
        c.violation(
            &format!("detection_webs|number-of-webs-differs-from-dimension:{}|{cond}", if rows.len() < dim { "too-few" } else { "too-many" }),
            family,
            index,
            detail("number of returned webs != dimension of the web space", json!({"returned": rows.len(), "expected": dim, "webs": all_webs(), "graph_after": after})),
        );
        return None;
    }
    if let Some(bf) = bf {
        if let Some(bad) = rows.iter().position(|r| !bf.contains(r)) {
            c.violation(
                &format!("detection_webs|web-not-generated-by-any-valid-firing-set|{cond}"),
                family,
                index,
                detail("web not in the brute-force set", json!({"web": web_json(&webs[bad]), "graph_after": after})),
            );
            return None;
        }
    }
    c.count(&format!("held:{name}"), 1);
    // a second call on the diagram the first call left behind (already bipartite): nothing to
    // subdivide any more, same boundary lists, and webs spanning the same space
    if io_ok && (index + which as u64) % 3 == 0 {
        let nv = g.num_vertices();
        match guarded(|| detection_webs(&mut g)) {
            Err(Caught::Oracle(m)) => c.inconclusive("oracle-error", json!({"msg": m})),
            Err(e) => c.violation(&format!("detection_webs|panic:{}|second-call-on-the-left-diagram", e.site()), family, index, detail("panic in a second call", json!({"panic": e.text(), "graph_after_first_call": after}))),
            Ok(webs2) => {
                c.count("second-calls", 1);
                let mut rows2: Vec<Row> = vec![];
                let mut mapped = true;
                for w in &webs2 {
                    let mut row = f2::zero_row(cols);
                    for (&(a, b), p) in w.edge_operators.iter() {
                        let e = match (to_canon.get(&a), to_canon.get(&b)) {
                            (Some(&ca), Some(&cb)) => cz.edge_index.get(&(ca.min(cb), ca.max(cb))).copied(),
                            _ => None,
                        };
                        let Some(e) = e else {
                            mapped = false;
                            break;
                        };
                        if matches!(p, Pauli::X | Pauli::Y) {
                            f2::set(&mut row, 2 * e, true);
                        }
                        if matches!(p, Pauli::Z | Pauli::Y) {
                            f2::set(&mut row, 2 * e + 1, true);
                        }
                    }
                    rows2.push(row);
                }
                let same_io = *g.inputs() == ins0 && *g.outputs() == outs0;
                if g.num_vertices() != nv || !same_io || !mapped || rows2.len() != rows.len() || !f2::same_span(&rows, &rows2, cols) {
                    c.violation(
                        "detection_webs|second-call-on-the-left-diagram-differs",
                        family,
                        index,
                        detail(
                            "a second call on the (already bipartite) diagram left by the first call must change nothing and span the same web space",
                            json!({"vertices_before_after": [nv, g.num_vertices()], "inputs_outputs_kept": same_io, "webs_use_only_existing_edges": mapped, "webs_first": rows.len(), "webs_second": rows2.len(), "graph_after_first_call": after, "graph_after_second_call": graph_dump(&g)}),
                        ),
                    );
                }
            }
        }
    }
    if io_ok {
        Some(rows)
    } else {
        None
    }
}

fn check_desc(family: &'static str, index: u64, d: &WDesc, r: &mut Rng) {
    let c = ctx();
    let cz = canon(d);
    let dim = cz.pg.web_space_dim();
    // oracle cross-checks (failures are harness errors, never verdicts)
    let dim_orig = cz.original.web_space_dim();
    if dim != dim_orig {
        c.harness_error(&format!("C20 oracle: edge system dimension differs between original ({dim_orig}) and subdivided ({dim}) diagram: {:?}", d));
        return;
    }
    let nsp = cz.pg.kind.iter().filter(|&&k| k != 0).count();
    let bf = if nsp <= 12 {
        let set = brute_force_webs(&cz.pg);
        if set.len() != 1usize << dim {
            c.harness_error(&format!("C20 oracle: brute force found {} webs, edge system says 2^{dim}: {:?}", set.len(), d));
            return;
        }
        c.count("brute-force-enumerations", 1);
        Some(set)
    } else {
        c.count("brute-force-skipped(>12 spiders after subdivision)", 1);
        None
    };
    c.count(&format!("dim={dim}"), 1);
    c.maximum("max_dimension", dim as u64);
    c.maximum("max_spiders", d.ns() as u64);
    c.maximum("max_spiders_after_subdivision", nsp as u64);
    c.count(&format!("boundaries={}", d.nb()), 1);
    if d.has_isolated_spider() {
        c.count("diagrams-with-isolated-spider", 1);
    }
    let cols = 2 * cz.pg.edges.len();
    let mut spans: Vec<(usize, Vec<Row>)> = vec![];
    for which in 0..NUMBERINGS.len() {
        let ids = numbering(which, d, r);
        if let Some(rows) = run_one(family, index, d, &cz, dim, bf.as_ref(), which, &ids) {
            spans.push((which, rows));
        }
    }
    for pair in spans.windows(2) {
        c.count("span-comparisons", 1);
        if !f2::same_span(&pair[0].1, &pair[1].1, cols) {
            c.violation(
                "detection_webs|span-depends-on-numbering",
                family,
                index,
                json!({"diagram": d.to_json(), "numbering_a": NUMBERINGS[pair[0].0], "numbering_b": NUMBERINGS[pair[1].0], "expected_web_space_dimension": dim}),
            );
        }
    }
    let nontrivial = d.ns() >= 2 && dim >= 1;
    c.case(family, if nontrivial { Some(d.hash()) } else { None });
    c.evals(NUMBERINGS.len() as u64 - 1);
    c.sample_n(5, || json!({"family": family, "index": index, "diagram": d.to_json(), "web_space_dimension": dim}));
}

// --------------------------------------------------------------------------------------
// generators
// --------------------------------------------------------------------------------------

fn gen_desc(r: &mut Rng, max_s: usize, allow_isolated: bool) -> WDesc {
    let ns = if r.chance(0.03) { 0 } else { 1 + r.below(max_s) };
    let colour_mode = r.below(4);
    let spiders: Vec<(bool, bool)> = (0..ns)
        .map(|i| {
            let is_x = match colour_mode {
                0 => false,
                1 => true,
                2 => i % 2 == 1,
                _ => r.chance(0.5),
            };
            (is_x, r.chance(0.3))
        })
        .collect();
    let dens = *r.pick(&[0.15, 0.3, 0.5, 0.7]);
    let mut edges = vec![];
    for i in 0..ns {
        for j in (i + 1)..ns {
            if r.chance(dens) {
                edges.push((i, j));
            }
        }
    }
    let nb = if ns == 0 { 0 } else { *r.pick(&[0usize, 0, 1, 1, 2, 2, 3, 4]) };
    let mut bnds: Vec<(usize, bool)> = (0..nb).map(|_| (r.below(ns), r.chance(0.5))).collect();
    let mut d = WDesc { spiders, edges, bnds: vec![] };
    d.bnds.append(&mut bnds);
    if !allow_isolated {
        // give every leg-less spider an edge to some other spider (or a boundary when alone)
        for s in 0..ns {
            let lonely = !d.edges.iter().any(|e| e.0 == s || e.1 == s) && !d.bnds.iter().any(|b| b.0 == s);
            if lonely {
                if ns >= 2 {
                    let mut t = r.below(ns - 1);
                    if t >= s {
                        t += 1;
                    }
                    d.edges.push((s.min(t), s.max(t)));
                } else {
                    d.bnds.push((s, r.chance(0.5)));
                }
            }
        }
        d.edges.sort();
        d.edges.dedup();
    }
    d
}

/// 30-130 spiders, sparse (a random tree plus a few extra edges; average degree 2-3), up to 8
/// boundaries: vertex ids and matrix dimensions above 64 / 128 / 256 (the brute-force
/// membership cross-check does not apply at this size; the linear-system oracle does).
fn gen_desc_large(r: &mut Rng) -> WDesc {
    let ns = if r.chance(0.5) { *r.pick(&[30usize, 50, 66, 90, 130]) + r.below(8) } else { 20 + r.below(120) };
    let colour_mode = r.below(4);
    let spiders: Vec<(bool, bool)> = (0..ns)
        .map(|i| {
            let is_x = match colour_mode {
                0 => false,
                1 => true,
                2 => i % 2 == 1,
                _ => r.chance(0.5),
            };
            (is_x, r.chance(0.3))
        })
        .collect();
    let mut edges = vec![];
    for i in 1..ns {
        if r.chance(0.04) {
            continue; // a few components
        }
        let j = if r.chance(0.7) { i - 1 - r.below(3.min(i)) } else { r.below(i) };
        edges.push((j, i));
    }
    let extra = r.below(ns / 3 + 1);
    for _ in 0..extra {
        let (a, b) = (r.below(ns), r.below(ns));
        if a != b {
            edges.push((a.min(b), a.max(b)));
        }
    }
    edges.sort();
    edges.dedup();
    let nb = r.below(9);
    let bnds: Vec<(usize, bool)> = (0..nb).map(|_| (r.below(ns), r.chance(0.5))).collect();
    WDesc { spiders, edges, bnds }
}

/// all diagrams with `ns` spiders: colours x edge subsets x (<= 2 boundaries attached anywhere)
fn tiny_space(ns: usize) -> usize {
    let pairs = ns * ns.saturating_sub(1) / 2;
    let bnd_cfgs = if ns == 0 { 1 } else { 1 + ns + ns * ns };
    (1usize << ns) * (1usize << pairs) * bnd_cfgs
}

fn tiny_desc(ns: usize, mut idx: usize, r: &mut Rng) -> WDesc {
    let pairs = ns * ns.saturating_sub(1) / 2;
    let cmask = idx % (1 << ns);
    idx /= 1 << ns;
    let emask = idx % (1 << pairs);
    idx /= 1 << pairs;
    let spiders: Vec<(bool, bool)> = (0..ns).map(|i| ((cmask >> i) & 1 == 1, r.chance(0.3))).collect();
    let mut edges = vec![];
    let mut k = 0;
    for i in 0..ns {
        for j in (i + 1)..ns {
            if (emask >> k) & 1 == 1 {
                edges.push((i, j));
            }
            k += 1;
        }
    }
    let mut bnds = vec![];
    if ns > 0 {
        if idx >= 1 && idx < 1 + ns {
            bnds.push((idx - 1, r.chance(0.5)));
        } else if idx >= 1 + ns {
            let t = idx - 1 - ns;
            bnds.push((t / ns, r.chance(0.5)));
            bnds.push((t % ns, r.chance(0.5)));
        }
    }
    WDesc { spiders, edges, bnds }
}

pub fn self_test() -> Result<(), String> {
    f2::self_test()?;
    // Z - Z (one plain edge, no boundary): after subdivision Z - X - Z, one web: X on both edges
    let d = WDesc { spiders: vec![(false, false), (false, false)], edges: vec![(0, 1)], bnds: vec![] };
    let cz = canon(&d);
    if cz.pg.web_space_dim() != 1 || cz.original.web_space_dim() != 1 || brute_force_webs(&cz.pg).len() != 2 {
        return Err("C20 oracle: Z-Z".into());
    }
    // Z - X: no web (each would need an even number of fired neighbours)
    let d = WDesc { spiders: vec![(false, false), (true, false)], edges: vec![(0, 1)], bnds: vec![] };
    let cz = canon(&d);
    if cz.pg.web_space_dim() != 0 || brute_force_webs(&cz.pg).len() != 1 {
        return Err("C20 oracle: Z-X".into());
    }
    // in - Z - out: the wire has no internal web
    let d = WDesc { spiders: vec![(false, false)], edges: vec![], bnds: vec![(0, true), (0, false)] };
    let cz = canon(&d);
    if cz.pg.web_space_dim() != 0 {
        return Err("C20 oracle: wire".into());
    }
    // 4-cycle Z X Z X: firing both Z spiders, or both X spiders: dimension 2
    let d = WDesc { spiders: vec![(false, false), (true, false), (false, true), (true, false)], edges: vec![(0, 1), (1, 2), (2, 3), (0, 3)], bnds: vec![] };
    let cz = canon(&d);
    if cz.pg.web_space_dim() != 2 || brute_force_webs(&cz.pg).len() != 4 {
        return Err("C20 oracle: 4-cycle".into());
    }
    // check_web rejects a boundary mark and an odd other-colour count
    let d = WDesc { spiders: vec![(false, false), (true, false)], edges: vec![(0, 1)], bnds: vec![(0, true)] };
    let cz = canon(&d);
    let mut w = f2::zero_row(4);
    f2::set(&mut w, 2 * cz.edge_index[&(0, 2)], true);
    if cz.pg.check_web(&w).is_ok() {
        return Err("C20 oracle: boundary mark accepted".into());
    }
    let mut w = f2::zero_row(4);
    f2::set(&mut w, 2 * cz.edge_index[&(0, 1)] + 1, true);
    if cz.pg.check_web(&w).is_ok() {
        return Err("C20 oracle: odd Z count at a Z spider accepted".into());
    }
    Ok(())
}

pub fn run() {
    let c = ctx();
    let t = c.tier;
    if let Err(e) = self_test() {
        c.harness_error(&format!("C20 oracle self-test failed: {e}"));
        return;
    }
    c.set_rule(
        "cases = diagrams (Z/X spiders, phases 0/pi, plain edges, 0-4 boundaries on spiders), each run under 8 vertex numberings / construction histories (evaluations counts diagram x numbering executions); non-trivial when the diagram has >= 2 spiders and a web space of dimension >= 1; distinct = distinct diagram descriptions (64-bit hash)",
    );
    c.assume("own-colour Pauli of a Z spider is Pauli X (drawn green, generated by firing it), of an X spider Pauli Z; Y counts as both");
    c.assume("web space = solution space of the edge-based F2 system on the subdivided (bipartite) diagram; cross-checked against the same system on the original diagram and, up to 12 spiders, against brute-force enumeration of firing sets");
    c.assume("the diagram left by the routine must be the input with every same-colour edge subdivided once by a phase-free spider of the other colour");
    // exhaustive tiny diagrams first, smallest first, so that recorded witnesses are small
    let max_tiny = 4usize;
    let mut tiny_total = 0usize;
    for ns in 0..=max_tiny {
        let space = tiny_space(ns);
        tiny_total += space;
        let fam: &'static str = ["tiny-exhaustive-0", "tiny-exhaustive-1", "tiny-exhaustive-2", "tiny-exhaustive-3", "tiny-exhaustive-4"][ns];
        par_cases(fam, space, move |r, i| {
            let d = tiny_desc(ns, i as usize, r);
            check_desc(fam, i, &d, r);
        });
    }
    c.extra("tiny_exhaustive", json!({"max_spiders": max_tiny, "space": tiny_total, "completed": !c.out_of_time(), "note": "shapes exhaustive; phases and input/output roles random"}));
    let (ms, n) = t.pick((9usize, 9000usize), (12usize, 1_500_000usize));
    par_cases("random-no-isolated", n, move |r, i| {
        let d = gen_desc(r, ms, false);
        check_desc("random-no-isolated", i, &d, r);
    });
    par_cases("random-with-isolated", n / 3, move |r, i| {
        let d = gen_desc(r, ms, true);
        check_desc("random-with-isolated", i, &d, r);
    });
    par_cases("large-sparse", t.pick(120usize, 20_000usize), move |r, i| {
        let d = gen_desc_large(r);
        check_desc("large-sparse", i, &d, r);
    });
    c.extra("exhaustive", json!(false));
}

//! C01 -- simplifiers preserve the linear map (scalar included), terminate, never panic.
//!
//! Events: for each generated diagram, backend and simplification procedure: snapshot
//! before, run the procedure under catch_unwind with a rewrite budget (hook H2),
//! snapshot after. Oracle: no panic, budget not exceeded, result well-formed,
//! E(after) == E(before) (exact in Z[omega][1/2] for pi/4 phases, 1e-8 otherwise).

use crate::fw::{ctx, guarded, par_cases, Caught};
use crate::gen::circuit::{gen_circuit, to_quizx, CircParams, PhPool};
use crate::gen::diagram::*;
use crate::gen::prng::Rng;
use crate::oracle::eval::EvalError;
use crate::snap::{eval_graph, eval_snap, graph_json, snap, Tens, FLOAT_TOL};
use quizx::graph::{GraphLike, V};
use quizx::simplify as s;
use serde_json::json;

pub const PROCS: [&str; 13] = [
    "id_simp",
    "spider_simp",
    "local_comp_simp",
    "pivot_simp",
    "gen_pivot_simp",
    "scalar_simp",
    "flow_simp",
    "interior_clifford_simp",
    "clifford_simp",
    "fuse_gadgets",
    "full_simp",
    "local_ap_simp",
    "local_gslc_simp",
];

pub fn apply_proc<G: GraphLike>(name: &str, g: &mut G, vs: &[V]) {
    match name {
        "id_simp" => {
            s::id_simp(g);
        }
        "spider_simp" => {
            s::spider_simp(g);
        }
        "local_comp_simp" => {
            s::local_comp_simp(g);
        }
        "pivot_simp" => {
            s::pivot_simp(g);
        }
        "gen_pivot_simp" => {
            s::gen_pivot_simp(g);
        }
        "scalar_simp" => {
            s::scalar_simp(g);
        }
        "flow_simp" => {
            s::flow_simp(g);
        }
        "interior_clifford_simp" => {
            s::interior_clifford_simp(g);
        }
        "clifford_simp" => {
            s::clifford_simp(g);
        }
        "fuse_gadgets" => {
            s::fuse_gadgets(g);
        }
        "full_simp" => {
            s::full_simp(g);
        }
        "local_ap_simp" => s::local_ap_simp(g, vs.to_vec()),
        "local_gslc_simp" => s::local_gslc_simp(g, vs.to_vec()),
        _ => unreachable!(),
    }
}

pub fn budget_for(nv: usize, ne: usize) -> u64 {
    10_000 + 50 * ((nv + ne) as u64).pow(2)
}

/// Check one (diagram, backend, procedure) triple. `before` is E(diagram).
fn check_triple<G: GraphLike>(
    family: &'static str,
    index: u64,
    backend: &str,
    proc_: &str,
    mut g: G,
    vs: &[V],
    before: &Tens,
    desc: &serde_json::Value,
) -> u64 {
    let c = ctx();
    let budget = budget_for(g.num_vertices(), g.num_edges());
    quizx::verif::take_ticks();
    quizx::verif::set_budget(budget);
    let r = guarded(|| apply_proc(proc_, &mut g, vs));
    quizx::verif::set_budget(u64::MAX);
    let ticks = quizx::verif::take_ticks();
    let total: u64 = ticks.iter().map(|t| t.1).sum();
    for (rule, n) in &ticks {
        c.count(&format!("ticks:{rule}"), *n);
    }
    c.maximum("max_ticks_in_one_call", total);
    c.count(&format!("proc:{proc_}:{backend}"), 1);
    let detail = |what: &str, extra: serde_json::Value| {
        json!({"what": what, "procedure": proc_, "backend": backend, "diagram": desc, "vs": vs, "extra": extra})
    };
    match r {
        Err(Caught::Budget(rule)) => {
            c.violation(
                &format!("{proc_}|no-termination-within-budget|{rule}"),
                family,
                index,
                detail("rewrite budget exceeded", json!({"budget": budget, "ticks": format!("{ticks:?}")})),
            );
            return total;
        }
        Err(Caught::Oracle(m)) => {
            c.inconclusive("oracle-error", json!({"msg": m}));
            return total;
        }
        Err(e @ Caught::Panic { .. }) => {
            c.violation(&format!("{proc_}|panic|{}", e.site()), family, index, detail("panic", json!(e.text())));
            return total;
        }
        Ok(()) => {}
    }
    let after_snap = match snap(&g) {
        Ok(s) => s,
        Err(e) => {
            c.violation(&format!("{proc_}|unsnappable-result"), family, index, detail("result not representable", json!(e)));
            return total;
        }
    };
    match eval_snap(&after_snap) {
        Ok(after) => {
            if after.len() != before.len() || !after.same(before, FLOAT_TOL) {
                c.violation(
                    &format!("{proc_}|map-changed"),
                    family,
                    index,
                    detail(
                        "linear map changed",
                        json!({"before": before.brief(), "after": after.brief(), "result": graph_json(&g), "ticks": format!("{ticks:?}")}),
                    ),
                );
            }
        }
        Err(EvalError::IllFormed(m)) => {
            c.violation(
                &format!("{proc_}|ill-formed-result"),
                family,
                index,
                detail("result is not a well-formed diagram", json!({"why": m, "result": graph_json(&g)})),
            );
        }
        Err(EvalError::TooWide(_)) => c.skipped(),
    }
    total
}

/// Several procedures one after the other on the SAME graph object (2-4 of them, a clone taken
/// in between now and then): whatever one procedure leaves behind - holes and recycled ids in
/// the vector backend, phases in non-canonical form, gadgets half-fused - is the next one's
/// input. After every step E(g) must still be E(diagram). Only the first failing step of a
/// sequence is reported, under the procedure that failed and its predecessor.
fn check_sequence<G: GraphLike>(family: &'static str, index: u64, backend: &str, seq: &[&'static str], mut g: G, vs_all: bool, before: &Tens, desc: &serde_json::Value) -> u64 {
    let c = ctx();
    let mut total = 0u64;
    let mut prev = "start";
    for (k, proc_) in seq.iter().enumerate() {
        let vs: Vec<V> = if vs_all { g.vertices().collect() } else { g.vertices().filter(|v| v % 2 == 0).collect() };
        let budget = budget_for(g.num_vertices(), g.num_edges());
        quizx::verif::take_ticks();
        quizx::verif::set_budget(budget);
        let r = guarded(|| apply_proc(proc_, &mut g, &vs));
        quizx::verif::set_budget(u64::MAX);
        let ticks = quizx::verif::take_ticks();
        total += ticks.iter().map(|t| t.1).sum::<u64>();
        c.count(&format!("sequence-step:{proc_}"), 1);
        let detail = |what: &str, extra: serde_json::Value| json!({"what": what, "sequence": seq, "failed_at_step": k, "backend": backend, "diagram": desc, "extra": extra});
        match r {
            Err(Caught::Budget(rule)) => {
                c.violation(&format!("{proc_}|no-termination-within-budget|{rule}|in-sequence-after:{prev}"), family, index, detail("rewrite budget exceeded", json!({"budget": budget})));
                return total;
            }
            Err(Caught::Oracle(m)) => {
                c.inconclusive("oracle-error", json!({"msg": m}));
                return total;
            }
            Err(e @ Caught::Panic { .. }) => {
                c.violation(&format!("{proc_}|panic|{}|in-sequence-after:{prev}", e.site()), family, index, detail("panic", json!(e.text())));
                return total;
            }
            Ok(()) => {}
        }
        match snap(&g).map_err(EvalError::IllFormed).and_then(|s| eval_snap(&s)) {
            Ok(after) => {
                if after.len() != before.len() || !after.same(before, FLOAT_TOL) {
                    c.violation(
                        &format!("{proc_}|map-changed|in-sequence-after:{prev}"),
                        family,
                        index,
                        detail("linear map changed", json!({"before": before.brief(), "after": after.brief(), "result": graph_json(&g)})),
                    );
                    return total;
                }
            }
            Err(EvalError::IllFormed(m)) => {
                c.violation(&format!("{proc_}|ill-formed-result|in-sequence-after:{prev}"), family, index, detail("result is not a well-formed diagram", json!({"why": m, "result": graph_json(&g)})));
                return total;
            }
            Err(EvalError::TooWide(_)) => {
                c.skipped();
                return total;
            }
        }
        if k % 2 == 1 {
            // continue on a clone: a clone must be as good as the original
            g = g.clone();
        }
        prev = proc_;
    }
    total
}

pub fn check_desc_sequences(family: &'static str, index: u64, r: &mut Rng, d: &DDesc) {
    let c = ctx();
    let (g0, _) = d.build::<quizx::vec_graph::Graph>(None);
    let before = match eval_graph(&g0) {
        Ok(t) => t,
        Err(_) => {
            c.skipped();
            return;
        }
    };
    let desc = d.to_json();
    let mut total = 0;
    for _ in 0..3 {
        let len = 2 + r.below(3);
        let seq: Vec<&'static str> = (0..len).map(|_| *r.pick(&PROCS)).collect();
        let scr = if r.chance(0.5) { Some(r.next_u64()) } else { None };
        let vs_all = r.chance(0.7);
        total += check_sequence(family, index, "vec", &seq, d.build::<quizx::vec_graph::Graph>(scr).0, vs_all, &before, &desc);
        total += check_sequence(family, index, "hash", &seq, d.build::<quizx::hash_graph::Graph>(scr).0, vs_all, &before, &desc);
    }
    c.case(family, if total > 0 && d.num_spiders() >= 2 { Some(d.hash()) } else { None });
    c.evals(5);
}

fn pick_vs(r: &mut Rng, ids: &[V], g: &impl GraphLike) -> Vec<V> {
    match r.below(3) {
        0 => ids.to_vec(),
        1 => {
            // boundary-adjacent spiders
            let mut vs = vec![];
            for &b in g.inputs().iter().chain(g.outputs().iter()) {
                for n in g.neighbors(b) {
                    vs.push(n);
                }
            }
            vs
        }
        _ => {
            let mut vs: Vec<V> = ids.iter().copied().filter(|_| r.chance(0.5)).collect();
            vs.push(g.vindex() + 3); // a stale id
            vs
        }
    }
}

pub fn check_desc(family: &'static str, index: u64, r: &mut Rng, d: &DDesc) {
    let c = ctx();
    // reference value from a plain build
    let (g0, ids0) = d.build::<quizx::vec_graph::Graph>(None);
    let before = match eval_graph(&g0) {
        Ok(t) => t,
        Err(EvalError::TooWide(_)) => {
            c.skipped();
            return;
        }
        Err(EvalError::IllFormed(m)) => {
            c.harness_error(&format!("generator produced ill-formed diagram: {m}"));
            return;
        }
    };
    let desc = d.to_json();
    let scr = if r.chance(0.5) { Some(r.next_u64()) } else { None };
    let mut total = 0;
    let vs0 = pick_vs(r, &ids0, &g0);
    // translate vs from the plain build ids to a position list so both backends get the same choice
    let pos: Vec<Option<usize>> = vs0.iter().map(|v| ids0.iter().position(|x| x == v)).collect();
    for proc_ in PROCS {
        {
            let (g, ids) = d.build::<quizx::vec_graph::Graph>(scr);
            let vs: Vec<V> = pos.iter().map(|p| p.map(|i| ids[i]).unwrap_or(g.vindex() + 3)).collect();
            total += check_triple(family, index, "vec", proc_, g, &vs, &before, &desc);
        }
        {
            let (g, ids) = d.build::<quizx::hash_graph::Graph>(scr);
            let vs: Vec<V> = pos.iter().map(|p| p.map(|i| ids[i]).unwrap_or(g.vindex() + 3)).collect();
            total += check_triple(family, index, "hash", proc_, g, &vs, &before, &desc);
        }
    }
    let nontrivial = total > 0 && d.num_spiders() >= 2;
    c.case(family, if nontrivial { Some(d.hash()) } else { None });
    c.evals(25); // 26 triples per diagram in total
    c.sample_n(4, || json!({"family": family, "index": index, "diagram": desc, "rewrites_fired": total}));
}

/// circuit-derived family: quizx's own translation is used only as an input generator here
fn check_circuit_family(family: &'static str, index: u64, r: &mut Rng, pool: PhPool, max_q: usize, max_d: usize) {
    let c = ctx();
    let mut p = CircParams::unitary(max_q, max_d, pool);
    p.swap = false;
    let circ = gen_circuit(r, &p);
    let qc = to_quizx(&circ);
    let mode = r.below(3);
    let build_vec = || -> quizx::vec_graph::Graph {
        let mut g: quizx::vec_graph::Graph = qc.to_graph();
        decorate(&mut g, mode, circ.n);
        g
    };
    let build_hash = || -> quizx::hash_graph::Graph {
        let mut g: quizx::hash_graph::Graph = qc.to_graph();
        decorate(&mut g, mode, circ.n);
        g
    };
    fn decorate<G: GraphLike>(g: &mut G, mode: usize, n: usize) {
        use quizx::graph::BasisElem;
        match mode {
            1 => {
                g.plug_inputs(&vec![BasisElem::Z0; n]);
                g.plug_outputs(&vec![BasisElem::Z0; n]);
            }
            2 => {
                let a = g.to_adjoint();
                g.plug(&a);
            }
            _ => {}
        }
    }
    let g0 = match guarded(build_vec) {
        Ok(g) => g,
        Err(_) => {
            c.skipped();
            return;
        }
    };
    let before = match eval_graph(&g0) {
        Ok(t) => t,
        Err(_) => {
            c.skipped();
            return;
        }
    };
    let desc = json!({"circuit": crate::gen::circuit::circ_json(&circ), "mode": mode});
    let mut total = 0;
    for proc_ in PROCS {
        let vs: Vec<V> = g0.vertices().collect();
        if let Ok(g) = guarded(build_vec) {
            total += check_triple(family, index, "vec", proc_, g, &vs, &before, &desc);
        }
        if let Ok(g) = guarded(build_hash) {
            let vs: Vec<V> = g.vertices().collect();
            total += check_triple(family, index, "hash", proc_, g, &vs, &before, &desc);
        }
    }
    let h = crate::gen::circuit::circ_hash(&circ) ^ (mode as u64);
    c.case(family, if total > 0 && g0.num_vertices() > 2 { Some(h) } else { None });
    c.evals(25);
    c.sample_n(6, || json!({"family": family, "index": index, "case": desc, "rewrites_fired": total}));
}

pub fn run() {
    let c = ctx();
    let t = c.tier;
    c.set_rule(
        "cases = generated diagrams (families: arbitrary, graph-like, gadget-rich, circuit-derived, exhaustive tiny); each is run through 13 simplification procedures x 2 backends (evaluations counts these triples); a diagram is non-trivial when it has >= 2 spiders and at least one rewrite fired (hook H2); distinct = distinct diagram descriptions (64-bit hash)",
    );
    c.assume("independent evaluator O2 (harness/src/oracle/eval.rs) and exact ring O1 are correct (self-tested at start, cross-checked against O3)");
    c.assume("termination is decided in bounded-progress form: rewrite budget 10^4 + 50*(V+E)^2 per call; a case (26 calls on one diagram, normally microseconds) whose thread burns >= 60 CPU seconds before the 120 s watchdog fires is reported as non-termination as well");
    crate::fw::set_hang_is_violation(true);
    let (ms, n_rand) = t.pick((9usize, 3000usize), (13usize, 60_000usize));
    par_cases("arbitrary-exact", n_rand, move |r, i| {
        let d = gen_random(r, &DiagParams { max_spiders: ms, max_bnd: 4, pool: PhasePool::Exact, graph_like: false, bare_wires: true, var_prob: 0.0 });
        check_desc("arbitrary-exact", i, r, &d);
    });
    par_cases("arbitrary-clifford-heavy", n_rand, move |r, i| {
        let d = gen_random(r, &DiagParams { max_spiders: ms, max_bnd: 4, pool: PhasePool::CliffordHeavy, graph_like: false, bare_wires: true, var_prob: 0.0 });
        check_desc("arbitrary-clifford-heavy", i, r, &d);
    });
    par_cases("arbitrary-float", n_rand / 2, move |r, i| {
        let d = gen_random(r, &DiagParams { max_spiders: ms, max_bnd: 4, pool: PhasePool::Float, graph_like: false, bare_wires: true, var_prob: 0.0 });
        check_desc("arbitrary-float", i, r, &d);
    });
    par_cases("graph-like", n_rand, move |r, i| {
        let d = gen_random(r, &DiagParams { max_spiders: ms + 1, max_bnd: 4, pool: PhasePool::CliffordHeavy, graph_like: true, bare_wires: false, var_prob: 0.0 });
        check_desc("graph-like", i, r, &d);
    });
    par_cases("gadget-rich", n_rand, move |r, i| {
        let pool = if r.chance(0.5) { PhasePool::Exact } else { PhasePool::CliffordHeavy };
        let d = gen_gadget_rich(r, 5, pool, 0.0);
        check_desc("gadget-rich", i, r, &d);
    });
    par_cases("gadget-pairs", n_rand, move |r, i| {
        let pool = if r.chance(0.5) { PhasePool::Exact } else { PhasePool::CliffordHeavy };
        let d = gen_gadget_pairs(r, pool, 0.0);
        check_desc("gadget-pairs", i, r, &d);
    });
    let (cq, cd) = t.pick((3usize, 14usize), (4usize, 24usize));
    par_cases("circuit-derived", n_rand / 2, move |r, i| {
        let pool = if r.chance(0.7) { PhPool::Exact } else { PhPool::Float };
        check_circuit_family("circuit-derived", i, r, pool, cq, cd);
    });
    // long sparse diagrams: 40-120 spiders, tree-width <= 4
    let nls = t.pick(600usize, 8_000usize);
    par_cases("long-sparse", nls, move |r, i| {
        let pool = if r.chance(0.5) { PhasePool::Exact } else { PhasePool::CliffordHeavy };
        let gl = r.chance(0.4);
        let d = gen_long_sparse(r, 40, 120, pool, gl, 0.0);
        check_desc("long-sparse", i, r, &d);
    });
    par_cases("pi-gadgets", n_rand, move |r, i| {
        let d = gen_pi_gadgets(r);
        check_desc("pi-gadgets", i, r, &d);
    });
    // procedures in sequence on the same graph object
    par_cases("sequences", n_rand, move |r, i| {
        let d = match r.below(4) {
            0 => gen_random(r, &DiagParams { max_spiders: ms, max_bnd: 4, pool: PhasePool::Exact, graph_like: false, bare_wires: true, var_prob: 0.0 }),
            1 => gen_random(r, &DiagParams { max_spiders: ms + 1, max_bnd: 4, pool: PhasePool::CliffordHeavy, graph_like: true, bare_wires: false, var_prob: 0.0 }),
            2 => gen_gadget_rich(r, 5, PhasePool::Exact, 0.0),
            _ => gen_gadget_pairs(r, PhasePool::CliffordHeavy, 0.0),
        };
        check_desc_sequences("sequences", i, r, &d);
    });
    par_cases("sequences-long-sparse", t.pick(100usize, 3_000usize), move |r, i| {
        let gl = r.chance(0.4);
        let d = gen_long_sparse(r, 40, 100, PhasePool::Exact, gl, 0.0);
        check_desc_sequences("sequences-long-sparse", i, r, &d);
    });
    // hubs of degree 129-220
    par_cases("hub", t.pick(60usize, 2_000usize), move |r, i| {
        let gl = r.chance(0.5);
        let d = gen_hub(r, 129, 220, PhasePool::Exact, gl);
        check_desc("hub", i, r, &d);
    });
    // larger circuits (the evaluator's bucket elimination keeps them cheap: width ~ qubits)
    let (lq, ld, ln) = t.pick((5usize, 30usize, 60usize), (6usize, 60usize, 6_000usize));
    par_cases("circuit-derived-large", ln, move |r, i| {
        check_circuit_family("circuit-derived-large", i, r, PhPool::Exact, lq, ld);
    });
    // exhaustive tiny
    let max_ns = t.pick(2usize, 3usize);
    let mut exhaustive_done = true;
    let mut space_total = 0u64;
    for ns in 0..=max_ns {
        let space = tiny_space(ns);
        space_total += space;
        // chunked so that a case is ~256 diagrams
        let chunk = 256u64;
        let nchunks = ((space + chunk - 1) / chunk) as usize;
        let fam: &'static str = ["exhaustive-tiny-0", "exhaustive-tiny-1", "exhaustive-tiny-2", "exhaustive-tiny-3"][ns];
        par_cases(fam, nchunks, move |r, ci| {
            for k in 0..chunk {
                let idx = ci * chunk + k;
                if let Some(d) = tiny_diagram(ns, idx) {
                    // replay re-runs the whole chunk `ci` of family `fam`
                    check_desc(fam, ci, r, &d);
                }
            }
        });
        if c.out_of_time() {
            exhaustive_done = false;
        }
    }
    c.extra("exhaustive_tiny", json!({"max_spiders": max_ns, "space": space_total, "completed": exhaustive_done}));
    c.extra("exhaustive", json!(false));
}

//! qvmon <Cxx> [--tier quick|thorough] [--seed N] [--replay FILE]
use qvmon::fw::{ctx, init_ctx, Tier};

fn main() {
    let args: Vec<String> = std::env::args().collect();
    if args.len() < 2 {
        eprintln!("usage: qvmon <Cxx> [--tier quick|thorough] [--seed N] [--replay FILE]");
        std::process::exit(2);
    }
    let id = args[1].clone();
    let mut tier = match std::env::var("VERIF_TIER").ok().as_deref() {
        Some("thorough") => Tier::Thorough,
        _ => Tier::Quick,
    };
    let mut seed: u64 = std::env::var("VERIF_SEED").ok().and_then(|s| s.parse().ok()).unwrap_or(1);
    let mut replay: Option<(String, u64)> = None;
    let mut i = 2;
    while i < args.len() {
        match args[i].as_str() {
            "--tier" => {
                i += 1;
                tier = if args[i] == "thorough" { Tier::Thorough } else { Tier::Quick };
            }
            "--seed" => {
                i += 1;
                seed = args[i].parse().expect("seed");
            }
            "--replay" => {
                i += 1;
                let txt = std::fs::read_to_string(&args[i]).expect("cannot read replay file");
                let v: serde_json::Value = serde_json::from_str(&txt).expect("replay json");
                let fam = v["family"].as_str().expect("family").to_string();
                let idx = v["index"].as_u64().expect("index");
                seed = v["seed"].as_u64().expect("seed");
                tier = if v["tier"].as_str() == Some("thorough") { Tier::Thorough } else { Tier::Quick };
                replay = Some((fam, idx));
                qvmon::fw::set_replay_path(&args[i]);
            }
            other => {
                eprintln!("unknown argument {other}");
                std::process::exit(2);
            }
        }
        i += 1;
    }
    let Some((prop, monitor, floor_quick)) = qvmon::mon::lookup(&id) else {
        println!("HARNESS-ERROR unknown property {id}");
        std::process::exit(1);
    };
    if let Err(e) = qvmon::self_tests() {
        println!("HARNESS-ERROR oracle self-test failed: {e}");
        std::process::exit(1);
    }
    init_ctx(prop, tier, seed, replay);
    // Properties whose cases are tiny (longest legitimate case well under a second of CPU in
    // both tiers, see coverage.max_case_wall_ms): a case that is still burning CPU when the
    // 120 s watchdog fires (>= 60 CPU seconds on it) did not return, which no property about
    // the value or effect of a call can survive. Elsewhere (CLI subprocesses, 2^T-term
    // decompositions, wide tensor contractions, Miri) a watchdog stays inconclusive.
    if matches!(prop, "C01" | "C02" | "C03" | "C04" | "C07" | "C09" | "C10" | "C11" | "C12" | "C13" | "C14" | "C15" | "C16" | "C17" | "C18" | "C19" | "C20") {
        qvmon::fw::set_hang_is_violation(true);
    }
    monitor();
    let floor = match tier {
        Tier::Quick => floor_quick,
        Tier::Thorough => floor_quick * 10,
    };
    let code = ctx().finish(floor);
    std::process::exit(code);
}

//! Miri workload for C05 (thorough tier, driven by sanitize_c05.sh).
//!
//! Three tiny closed Clifford+T diagrams (T-count <= 3) are decomposed sequentially and
//! with `decompose_parallel` inside a 3-thread rayon pool, with two drivers. Miri checks
//! every interleaving it schedules for data races / undefined behaviour; this program
//! checks result == sequential result == value from the independent evaluator.
//!
//!   MIRIFLAGS="-Zmiri-tree-borrows -Zmiri-ignore-leaks -Zmiri-disable-isolation -Zmiri-many-seeds=0..8" \
//!     cargo +nightly miri run --bin miri_c05
//!
//! Does not touch `fw::ctx`. Exit code 0 = all equal, 3 = mismatch.

use num::Rational64;
use quizx::decompose::{BssWithCatsDriver, Decomposer, Driver, SimpFunc, SpiderCuttingDriver};
use quizx::graph::{EType, GraphLike, VType};
use quizx::vec_graph::Graph;
use qvmon::oracle::ring::{r_of_scalar, R};
use qvmon::snap::{eval_graph, Tens};

fn diagrams() -> Vec<(&'static str, Graph)> {
    let mut out = vec![];
    // (a) triangle of three T-type spiders with three different T phases
    let mut g = Graph::new();
    let a = g.add_vertex_with_phase(VType::Z, Rational64::new(1, 4));
    let b = g.add_vertex_with_phase(VType::Z, Rational64::new(3, 4));
    let c = g.add_vertex_with_phase(VType::Z, Rational64::new(-1, 4));
    g.add_edge_with_type(a, b, EType::H);
    g.add_edge_with_type(b, c, EType::H);
    g.add_edge_with_type(a, c, EType::H);
    out.push(("triangle", g));
    // (b) cat-3 with a pi hub
    let mut g = Graph::new();
    let h = g.add_vertex_with_phase(VType::Z, Rational64::new(1, 1));
    for p in [1, -3, 1] {
        let t = g.add_vertex_with_phase(VType::Z, Rational64::new(p, 4));
        g.add_edge_with_type(h, t, EType::H);
    }
    out.push(("cat3-pi", g));
    // (c) two components: T - S - T path, and an isolated T
    let mut g = Graph::new();
    let a = g.add_vertex_with_phase(VType::Z, Rational64::new(1, 4));
    let s = g.add_vertex_with_phase(VType::Z, Rational64::new(1, 2));
    let b = g.add_vertex_with_phase(VType::Z, Rational64::new(-3, 4));
    g.add_edge_with_type(a, s, EType::H);
    g.add_edge_with_type(s, b, EType::H);
    g.add_vertex_with_phase(VType::Z, Rational64::new(1, 4));
    out.push(("two-components", g));
    out
}

fn run<D: Driver>(g: &Graph, drv: &D, simp: SimpFunc, split: bool, pool: Option<&rayon::ThreadPool>) -> R {
    let mut d = Decomposer::new(g);
    d.with_simp(simp).with_split_graphs_components(split);
    match pool {
        None => {
            d.decompose(drv);
        }
        Some(p) => p.install(|| {
            d.decompose_parallel(drv);
        }),
    }
    r_of_scalar(&d.scalar())
}

fn main() {
    let pool = rayon::ThreadPoolBuilder::new().num_threads(3).build().expect("pool");
    let mut runs = 0;
    let mut bad = 0;
    for (name, g) in diagrams() {
        let expected = match eval_graph(&g) {
            Ok(Tens::Exact(v)) if v.len() == 1 => v[0].clone(),
            other => {
                println!("MIRI_C05 ORACLE-ERROR {name}: {other:?}");
                std::process::exit(4);
            }
        };
        // two drivers; simp/split chosen so that both the step recursion and the
        // component recursion run on pool threads
        let cfgs: [(SimpFunc, bool); 2] = [(SimpFunc::CliffordSimp, true), (SimpFunc::NoSimp, false)];
        for (i, (simp, split)) in cfgs.iter().enumerate() {
            let (seq, par, drv) = if i == 0 {
                let d = BssWithCatsDriver { random_t: false };
                (run(&g, &d, *simp, *split, None), run(&g, &d, *simp, *split, Some(&pool)), "BssWithCats")
            } else {
                let d = SpiderCuttingDriver;
                (run(&g, &d, *simp, *split, None), run(&g, &d, *simp, *split, Some(&pool)), "SpiderCutting")
            };
            runs += 2;
            if seq != expected || par != seq {
                bad += 1;
                println!("MIRI_C05 MISMATCH diagram={name} driver={drv} expected={expected} sequential={seq} parallel={par}");
            }
        }
    }
    if bad > 0 {
        std::process::exit(3);
    }
    println!("MIRI_C05 OK runs={runs}");
}

//! Miri workload for C08 (thorough tier, run by /verif/harness/sanitize_c08.sh):
//! 32 tiny diagrams / circuits / helper calls through `to_tensor4`, `to_tensorf`,
//! `hadamard_at` (ndarray `par_azip!` on two disjoint mutable slices, rayon pool),
//! `delta_at` / `cphase_at` (broadcast multiply), `plug_n_qubits` (reshape, broadcast,
//! sum_axis) -- including arrays in non-standard memory layouts and the calls that are
//! known to panic (unwinding through ndarray's owned/shared representations).
//!
//! Miri judges undefined behaviour and data races; this program additionally compares
//! every result with the harness oracles, so a silently wrong value under Miri's
//! allocator / scheduler is reported as a mismatch. It does not use the run context.
//!
//! Last line of stdout: `MIRI_C08 ran=<n> mismatches=<m> expected_panics=<p> unexpected_panics=<u>`

use num::complex::Complex;
use qvmon::fw::guarded;
use qvmon::gen::diagram::{tiny_diagram, PhasePool};
use qvmon::gen::prng::Rng;
use qvmon::gen::shapes::gen_shapes;
use qvmon::mon::c08::{build, diff_model, flatten, gen_mt, judge_circuit, judge_graph, Elem, Layout};
use qvmon::oracle::sim::{Circ, G};
use qvmon::oracle::tmodel::MT;
use quizx::scalar::Scalar4;
use quizx::tensor::{QubitOps, Tensor};

struct Tally {
    ran: u32,
    mismatches: u32,
    expected_panics: u32,
    unexpected_panics: u32,
}

fn check<A: Elem>(t: &mut Tally, what: &str, res: Result<Tensor<A>, qvmon::fw::Caught>, exp: &MT<A::M>) {
    t.ran += 1;
    match res {
        Err(e) => {
            t.unexpected_panics += 1;
            println!("unexpected panic in {what}: {}", e.text());
        }
        Ok(x) => {
            let ok = x.shape().iter().all(|&d| d == 2) && x.ndim() == exp.nd && diff_model::<A>(&flatten(&x).unwrap(), exp).ok();
            if !ok {
                t.mismatches += 1;
                println!("mismatch in {what}");
            }
        }
    }
}

fn helpers<A: Elem>(t: &mut Tally, r: &mut Rng, full: bool) {
    // hadamard_at on every layout kind
    let layouts = [
        (2usize, Layout::Standard),
        (2, Layout::Swapped(0, 1)),
        (3, Layout::ColumnMajor),
        (2, Layout::Strided(1)),
        (3, Layout::Inverted(0)),
    ];
    for (nd, layout) in layouts.into_iter().take(if full { 5 } else { 2 }) {
        let m = gen_mt::<A>(r, nd, 0.2);
        let ax = r.below(nd);
        let mut a: Tensor<A> = build::<A>(&m, layout);
        let res = guarded(move || {
            a.hadamard_at(ax);
            a
        });
        check::<A>(t, &format!("hadamard_at<{}> {layout:?}", A::NAME), res, &m.hadamard_at(ax));
    }
    // delta_at / cphase_at on a swapped layout
    if full {
        let m = gen_mt::<A>(r, 3, 0.0);
        let mut a: Tensor<A> = build::<A>(&m, Layout::Swapped(0, 2));
        let res = guarded(move || {
            a.delta_at(&[2, 0]);
            a.cphase_at(num::Rational64::new(1, 4), &[1, 2]);
            a
        });
        check::<A>(t, &format!("delta_at+cphase_at<{}>", A::NAME), res, &m.delta_at(&[2, 0]).cphase_at(1, 4, &[1, 2]));
    }
    // plug_n_qubits in the form the in-repo test uses (other has 2n indices, standard layout)
    for (d1, n) in [(2usize, 1usize), (3, 2), (1, 0), (2, 2)].into_iter().take(if full { 4 } else { 1 }) {
        let (ma, mb) = (gen_mt::<A>(r, d1, 0.2), gen_mt::<A>(r, 2 * n, 0.2));
        let (a, b): (Tensor<A>, Tensor<A>) = (build::<A>(&ma, Layout::Standard), build::<A>(&mb, Layout::Standard));
        let res = guarded(move || a.plug_n_qubits(n, &b));
        check::<A>(t, &format!("plug_n_qubits<{}> d1={d1} n={n}", A::NAME), res, &ma.plug(n, &mb));
    }
    // the forms known to panic on the current tree: unwinding must be clean too. If a later
    // fix makes them return, the value is checked instead.
    for (d1, d2, n, la, lb) in [
        (2usize, 2usize, 1usize, Layout::Swapped(0, 1), Layout::Standard),
        (2, 2, 1, Layout::Standard, Layout::Strided(0)),
        (1, 3, 1, Layout::Standard, Layout::Standard),
    ]
    .into_iter()
    .take(if full { 3 } else { 1 })
    {
        let (ma, mb) = (gen_mt::<A>(r, d1, 0.2), gen_mt::<A>(r, d2, 0.2));
        let (a, b): (Tensor<A>, Tensor<A>) = (build::<A>(&ma, la), build::<A>(&mb, lb));
        let res = guarded(move || a.plug_n_qubits(n, &b));
        match res {
            Err(_) => {
                t.ran += 1;
                t.expected_panics += 1;
            }
            ok => check::<A>(t, &format!("plug_n_qubits<{}> {la:?} {lb:?} d2={d2} n={n}", A::NAME), ok, &ma.plug(n, &mb)),
        }
    }
}

fn main() {
    let mut t = Tally { ran: 0, mismatches: 0, expected_panics: 0, unexpected_panics: 0 };
    // diagrams: a few of the exhaustive tiny ones (with boundaries) and a few listed shapes
    let mut diagrams = vec![];
    for (ns, idx) in [(1usize, 97u64), (1, 200), (2, 5000), (2, 12345), (2, 21000), (2, 21899)] {
        if let Some(d) = tiny_diagram(ns, idx) {
            diagrams.push(d);
        }
    }
    for seed in 0..4u64 {
        let mut r = Rng::for_case(7, "C08", "miri-shapes", seed);
        diagrams.push(gen_shapes(&mut r, if seed % 2 == 0 { PhasePool::Exact } else { PhasePool::Float }, 3));
    }
    for (i, d) in diagrams.iter().enumerate() {
        t.ran += 1;
        let res = if i % 2 == 0 {
            let (g, _) = d.build::<quizx::vec_graph::Graph>(Some(i as u64));
            judge_graph(&g)
        } else {
            let (g, _) = d.build::<quizx::hash_graph::Graph>(None);
            judge_graph(&g)
        };
        match res {
            Ok((f, _)) if f.is_empty() => {}
            Ok((f, _)) => {
                t.mismatches += 1;
                println!("diagram {i}: {:?}", f.iter().map(|x| &x.sig).collect::<Vec<_>>());
            }
            Err(e) => {
                t.mismatches += 1;
                println!("diagram {i}: oracle could not evaluate: {e:?}");
            }
        }
    }
    // circuits (no xcx: its evaluation is a known value defect, nothing for Miri to find)
    let circuits = vec![
        Circ { n: 1, gates: vec![G::H(0), G::T(0), G::H(0)] },
        Circ { n: 2, gates: vec![G::H(0), G::Cx(0, 1)] },
        Circ { n: 2, gates: vec![G::Swap(0, 1), G::H(1), G::Cz(0, 1)] },
        Circ { n: 2, gates: vec![G::Rx(1, (1, 3)), G::Swap(1, 0), G::X(0), G::Sdg(1)] },
        Circ { n: 3, gates: vec![G::H(2), G::Swap(0, 2), G::Ccx(2, 1, 0)] },
    ];
    for (i, c) in circuits.iter().enumerate() {
        t.ran += 1;
        let (f, _) = judge_circuit(c);
        if !f.is_empty() {
            t.mismatches += 1;
            println!("circuit {i}: {:?}", f.iter().map(|x| &x.sig).collect::<Vec<_>>());
        }
    }
    let mut r = Rng::for_case(7, "C08", "miri-helpers", 0);
    helpers::<Scalar4>(&mut t, &mut r, true);
    helpers::<Complex<f64>>(&mut t, &mut r, false);
    println!(
        "MIRI_C08 ran={} mismatches={} expected_panics={} unexpected_panics={}",
        t.ran, t.mismatches, t.expected_panics, t.unexpected_panics
    );
    if t.mismatches > 0 || t.unexpected_panics > 0 {
        std::process::exit(3);
    }
}

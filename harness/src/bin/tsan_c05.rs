//! ThreadSanitizer stress for C05 (thorough tier, driven by sanitize_c05.sh).
//!
//! A few hundred parallel decompositions inside a 16-thread rayon pool, launched from two
//! outer threads at once, every driver x simp level x split setting in rotation, each
//! result compared with the sequential result and with the independent evaluator.
//!
//!   RUSTFLAGS=-Zsanitizer=thread cargo +nightly build -Zbuild-std \
//!       --target x86_64-unknown-linux-gnu --release --bin tsan_c05
//!   TSAN_OPTIONS=halt_on_error=0 target-tsan/x86_64-unknown-linux-gnu/release/tsan_c05 [n] [seed]
//!
//! `tsan_c05 --canary` performs one deliberate unsynchronised write from two threads and
//! nothing else: the script uses it to confirm that this build of the sanitizer really
//! reports races (a clean stress run means nothing if the canary is not reported).
//!
//! Does not touch `fw::ctx`. Exit code 0 = all results equal, 3 = mismatch.

use quizx::decompose::{BssTOnlyDriver, BssWithCatsDriver, Decomposer, Driver, DynamicTDriver, SherlockDriver, SimpFunc, SpiderCuttingDriver};
use quizx::vec_graph::Graph;
use qvmon::gen::prng::Rng;
use qvmon::gen::tdiag::{gen_closed, ALL_FAMS};
use qvmon::oracle::ring::{r_of_scalar, R};
use qvmon::snap::{eval_graph, Tens};
use std::sync::atomic::{AtomicUsize, Ordering};
use std::sync::Arc;

fn go<D: Driver>(g: &Graph, drv: &D, simp: SimpFunc, split: bool, pool: Option<&rayon::ThreadPool>) -> R {
    let mut d = Decomposer::new(g);
    d.with_simp(simp).with_split_graphs_components(split);
    match pool {
        None => {
            d.decompose(drv);
        }
        Some(p) => p.install(|| {
            d.decompose_parallel(drv);
        }),
    }
    r_of_scalar(&d.scalar())
}

fn run(g: &Graph, which: usize, simp: SimpFunc, split: bool, pool: Option<&rayon::ThreadPool>) -> R {
    match which % 7 {
        0 => go(g, &BssTOnlyDriver { random_t: false }, simp, split, pool),
        1 => go(g, &BssTOnlyDriver { random_t: true }, simp, split, pool),
        2 => go(g, &BssWithCatsDriver { random_t: false }, simp, split, pool),
        3 => go(g, &BssWithCatsDriver { random_t: true }, simp, split, pool),
        4 => go(g, &DynamicTDriver, simp, split, pool),
        5 => go(g, &SherlockDriver { tries: vec![2, 2, 2] }, simp, split, pool),
        _ => go(g, &SpiderCuttingDriver, simp, split, pool),
    }
}

static mut CANARY: u64 = 0;

fn canary() {
    let hs: Vec<_> = (0..2)
        .map(|_| {
            std::thread::spawn(|| {
                for _ in 0..1000 {
                    // deliberate data race (harness self-check only)
                    unsafe {
                        let p = std::ptr::addr_of_mut!(CANARY);
                        p.write_volatile(p.read_volatile() + 1);
                    }
                }
            })
        })
        .collect();
    for h in hs {
        h.join().unwrap();
    }
    println!("TSAN_C05 CANARY done {}", unsafe { std::ptr::addr_of!(CANARY).read_volatile() });
}

fn main() {
    let args: Vec<String> = std::env::args().collect();
    if args.get(1).map(|s| s.as_str()) == Some("--canary") {
        canary();
        return;
    }
    let n: usize = args.get(1).and_then(|s| s.parse().ok()).unwrap_or(300);
    let seed: u64 = args.get(2).and_then(|s| s.parse().ok()).unwrap_or(1);
    let pool = Arc::new(rayon::ThreadPoolBuilder::new().num_threads(16).build().expect("pool"));
    let bad = Arc::new(AtomicUsize::new(0));
    let runs = Arc::new(AtomicUsize::new(0));
    let mut hs = vec![];
    for outer in 0..2u64 {
        let pool = pool.clone();
        let bad = bad.clone();
        let runs = runs.clone();
        hs.push(std::thread::spawn(move || {
            let simps = [SimpFunc::NoSimp, SimpFunc::CliffordSimp, SimpFunc::FullSimp];
            for i in 0..(n / 2) {
                let mut r = Rng::for_case(seed, "C05", "tsan", outer * 1_000_000 + i as u64);
                let fam = ALL_FAMS[i % ALL_FAMS.len()];
                let d = gen_closed(&mut r, fam, 8, 10);
                let (g, _) = d.build::<Graph>(None);
                let expected = match eval_graph(&g) {
                    Ok(Tens::Exact(v)) if v.len() == 1 => v[0].clone(),
                    _ => continue,
                };
                let which = r.below(7);
                let simp = simps[r.below(3)];
                let split = r.chance(0.5);
                let seq = run(&g, which, simp, split, None);
                let par = run(&g, which, simp, split, Some(&pool));
                runs.fetch_add(2, Ordering::SeqCst);
                if seq != expected || par != seq {
                    bad.fetch_add(1, Ordering::SeqCst);
                    println!(
                        "TSAN_C05 MISMATCH driver={which} simp={simp:?} split={split} expected={expected} sequential={seq} parallel={par} diagram={}",
                        d.to_json()
                    );
                }
            }
        }));
    }
    for h in hs {
        h.join().expect("outer thread");
    }
    let b = bad.load(Ordering::SeqCst);
    println!("TSAN_C05 {} runs={} mismatches={}", if b == 0 { "OK" } else { "MISMATCH" }, runs.load(Ordering::SeqCst), b);
    if b > 0 {
        std::process::exit(3);
    }
}

//! G-circ: circuit generators over the harness's own gate type, plus conversion to quizx
//! circuits and an independent QASM printer.

use super::prng::{hash_bytes, Rng};
use crate::oracle::sim::{Circ, Ph, G};
use num::Rational64;
use quizx::circuit::Circuit;
use quizx::gate::{GType, Gate};
use quizx::phase::Phase;

#[derive(Clone, Copy, Debug, PartialEq, Eq)]
pub enum PhPool {
    /// multiples of pi/4
    Exact,
    /// rational with denominators {3,5,7,8,16,...}
    Float,
}

#[derive(Clone, Debug)]
pub struct CircParams {
    pub min_qubits: usize,
    pub max_qubits: usize,
    pub max_depth: usize,
    pub pool: PhPool,
    pub clifford_t: bool,
    pub rotations: bool,
    pub swap: bool,
    pub xcx: bool,
    pub ccz: bool,
    pub pp: bool,
    pub ancilla: bool,
    pub measure: bool,
}

impl CircParams {
    pub fn unitary(max_qubits: usize, max_depth: usize, pool: PhPool) -> Self {
        CircParams {
            min_qubits: 1,
            max_qubits,
            max_depth,
            pool,
            clifford_t: true,
            rotations: true,
            swap: true,
            xcx: true,
            ccz: true,
            pp: true,
            ancilla: false,
            measure: false,
        }
    }
}

pub fn gen_ph(r: &mut Rng, pool: PhPool) -> Ph {
    let (n, d) = match pool {
        PhPool::Exact => (r.range(-3, 4), 4),
        PhPool::Float => {
            if r.chance(0.3) {
                (r.range(-3, 4), 4)
            } else {
                let d = *r.pick(&[3i64, 5, 7, 8, 16, 12, 32]);
                (r.range(-d + 1, d), d)
            }
        }
    };
    let p = Phase::new(Rational64::new(n, d)).to_rational();
    (*p.numer(), *p.denom())
}

fn distinct(r: &mut Rng, n: usize, k: usize) -> Vec<usize> {
    let mut qs: Vec<usize> = (0..n).collect();
    r.shuffle(&mut qs);
    qs.truncate(k);
    qs
}

/// An explicit measurement outcome: a new variable, on its own (60%) or XORed with one or two
/// of the variables already in use (the outcome parity of a gate may be any parity).
fn explicit_outcome(r: &mut Rng, var_next: &mut u32) -> Vec<u32> {
    let mut v = vec![*var_next];
    if *var_next > 0 {
        let extra = match r.below(10) {
            0..=5 => 0,
            6..=8 => 1,
            _ => 2,
        };
        for _ in 0..extra {
            let x = r.below(*var_next as usize) as u32;
            if !v.contains(&x) {
                v.push(x);
            }
        }
    }
    *var_next += 1;
    v.sort();
    v
}

pub fn gen_circuit(r: &mut Rng, p: &CircParams) -> Circ {
    let n = p.min_qubits + r.below(p.max_qubits - p.min_qubits + 1);
    let depth = if r.chance(0.03) { 0 } else { r.below(p.max_depth + 1) };
    // gate kind table
    let mut kinds: Vec<&str> = vec![];
    if p.clifford_t {
        kinds.extend(["x", "z", "s", "t", "sdg", "tdg", "h", "h", "t"]);
        if n >= 2 {
            kinds.extend(["cx", "cx", "cz", "cz"]);
        }
    }
    if p.rotations {
        kinds.extend(["rz", "rx"]);
    }
    if p.swap && n >= 2 {
        kinds.extend(["swap"]);
    }
    if p.xcx && n >= 2 {
        kinds.push("xcx");
    }
    if p.ccz && n >= 3 {
        kinds.extend(["ccz", "ccx"]);
    }
    if p.pp {
        kinds.push("pp");
    }
    // biases
    let swap_run = p.swap && n >= 2 && r.chance(0.2);
    let idle: Option<usize> = if n >= 2 && r.chance(0.25) { Some(r.below(n)) } else { None };
    let pair_bias: Option<(usize, usize)> = if n >= 2 && r.chance(0.3) {
        let q = distinct(r, n, 2);
        Some((q[0], q[1]))
    } else {
        None
    };
    // ancilla / postselection / measurement discipline
    let mut anc: Vec<usize> = vec![];
    let mut post: Vec<(usize, u8)> = vec![]; // (qubit, kind) kind 0 = post_sel, 1 = measure_d
    if p.ancilla {
        for q in 0..n {
            if r.chance(0.25) {
                anc.push(q);
            }
        }
        for q in 0..n {
            if r.chance(0.25) {
                post.push((q, 0));
            }
        }
    }
    if p.measure {
        for q in 0..n {
            if !post.iter().any(|x| x.0 == q) && r.chance(0.3) {
                post.push((q, 1));
            }
        }
    }
    let mut gates = vec![];
    for &q in &anc {
        gates.push(G::InitAnc(q));
    }
    if swap_run {
        for _ in 0..(1 + r.below(3)) {
            let q = distinct(r, n, 2);
            gates.push(G::Swap(q[0], q[1]));
        }
    }
    let avail: Vec<usize> = (0..n).filter(|q| Some(*q) != idle).collect();
    let na = avail.len();
    let mut var_next = 0u32;
    for _ in 0..depth {
        if kinds.is_empty() || na == 0 {
            break;
        }
        let k = *r.pick(&kinds);
        let pick = |r: &mut Rng, cnt: usize| -> Option<Vec<usize>> {
            if na < cnt {
                None
            } else {
                let mut a = avail.clone();
                r.shuffle(&mut a);
                a.truncate(cnt);
                Some(a)
            }
        };
        let two = |r: &mut Rng| -> Option<Vec<usize>> {
            if let Some((a, b)) = pair_bias {
                if r.chance(0.6) && Some(a) != idle && Some(b) != idle {
                    return Some(if r.chance(0.5) { vec![a, b] } else { vec![b, a] });
                }
            }
            pick(r, 2)
        };
        let g = match k {
            "x" => pick(r, 1).map(|q| G::X(q[0])),
            "z" => pick(r, 1).map(|q| G::Z(q[0])),
            "s" => pick(r, 1).map(|q| G::S(q[0])),
            "t" => pick(r, 1).map(|q| G::T(q[0])),
            "sdg" => pick(r, 1).map(|q| G::Sdg(q[0])),
            "tdg" => pick(r, 1).map(|q| G::Tdg(q[0])),
            "h" => pick(r, 1).map(|q| G::H(q[0])),
            "rz" => pick(r, 1).map(|q| G::Rz(q[0], gen_ph(r, p.pool))),
            "rx" => pick(r, 1).map(|q| G::Rx(q[0], gen_ph(r, p.pool))),
            "cx" => two(r).map(|q| G::Cx(q[0], q[1])),
            "cz" => two(r).map(|q| G::Cz(q[0], q[1])),
            "xcx" => two(r).map(|q| G::Xcx(q[0], q[1])),
            "swap" => two(r).map(|q| G::Swap(q[0], q[1])),
            "ccz" => pick(r, 3).map(|q| G::Ccz(q[0], q[1], q[2])),
            "ccx" => pick(r, 3).map(|q| G::Ccx(q[0], q[1], q[2])),
            "pp" => {
                let w = 1 + r.below(na);
                pick(r, w).map(|q| G::Pp(q, gen_ph(r, p.pool)))
            }
            _ => None,
        };
        if let Some(g) = g {
            gates.push(g);
        }
        // mid-circuit measure-reset
        if p.measure && r.chance(0.08) && na > 0 {
            let q = avail[r.below(na)];
            let vars = if r.chance(0.5) { vec![] } else { explicit_outcome(r, &mut var_next) };
            gates.push(G::MeasureR(q, vars));
        }
    }
    for &(q, kind) in &post {
        if kind == 0 {
            gates.push(G::PostSel(q));
        } else {
            let vars = if r.chance(0.5) { vec![] } else { explicit_outcome(r, &mut var_next) };
            gates.push(G::MeasureD(q, vars));
        }
    }
    // explicit variables must all be smaller than fresh ones: quizx numbers fresh
    // variables from max(explicit)+1, the harness mirrors that in `fresh_base`.
    Circ { n, gates }
}

/// first fresh variable number quizx will use for this circuit (max explicit var + 1, or 0)
pub fn fresh_base(c: &Circ) -> u32 {
    c.gates
        .iter()
        .filter_map(|g| match g {
            G::MeasureD(_, v) | G::MeasureR(_, v) => v.iter().max().copied(),
            _ => None,
        })
        .max()
        .map_or(0, |m| m + 1)
}

pub fn ph_to_phase(p: Ph) -> Phase {
    Phase::new(Rational64::new(p.0, p.1))
}

pub fn to_gate(g: &G) -> Gate {
    match g {
        G::Rz(q, p) => Gate::new_with_phase(GType::ZPhase, vec![*q], ph_to_phase(*p)),
        G::Rx(q, p) => Gate::new_with_phase(GType::XPhase, vec![*q], ph_to_phase(*p)),
        G::X(q) => Gate::new(GType::NOT, vec![*q]),
        G::Z(q) => Gate::new(GType::Z, vec![*q]),
        G::S(q) => Gate::new(GType::S, vec![*q]),
        G::T(q) => Gate::new(GType::T, vec![*q]),
        G::Sdg(q) => Gate::new(GType::Sdg, vec![*q]),
        G::Tdg(q) => Gate::new(GType::Tdg, vec![*q]),
        G::H(q) => Gate::new(GType::HAD, vec![*q]),
        G::Cx(a, b) => Gate::new(GType::CNOT, vec![*a, *b]),
        G::Cz(a, b) => Gate::new(GType::CZ, vec![*a, *b]),
        G::Xcx(a, b) => Gate::new(GType::XCX, vec![*a, *b]),
        G::Swap(a, b) => Gate::new(GType::SWAP, vec![*a, *b]),
        G::Ccz(a, b, c) => Gate::new(GType::CCZ, vec![*a, *b, *c]),
        G::Ccx(a, b, c) => Gate::new(GType::TOFF, vec![*a, *b, *c]),
        G::Pp(qs, p) => Gate::new_with_phase(GType::ParityPhase, qs.clone(), ph_to_phase(*p)),
        G::InitAnc(q) => Gate::new(GType::InitAncilla, vec![*q]),
        G::PostSel(q) => Gate::new(GType::PostSelect, vec![*q]),
        G::MeasureD(q, vars) => Gate::new_with_phase_and_vars(GType::Measure, vec![*q], Phase::new(Rational64::new(0, 1)), vars.clone()),
        G::MeasureR(q, vars) => {
            Gate::new_with_phase_and_vars(GType::MeasureReset, vec![*q], Phase::new(Rational64::new(0, 1)), vars.clone())
        }
    }
}

pub fn to_quizx(c: &Circ) -> Circuit {
    let mut q = Circuit::new(c.n);
    for g in &c.gates {
        q.push(to_gate(g));
    }
    q
}

/// The same circuit assembled in one of four ways, chosen by a hash of the circuit itself (so
/// that a case always gets the same one): plain pushes; the tail pushed first and the head
/// added with push_front (a wrapped ring buffer); push_front only (what extraction does);
/// pushed in reverse and reversed in place. The gate list is a VecDeque: its memory layout
/// depends on this history, its meaning must not.
pub fn to_quizx_layout(c: &Circ) -> Circuit {
    let n = c.gates.len();
    if n == 0 {
        return to_quizx(c);
    }
    let h = circ_hash(c);
    match h % 4 {
        0 => to_quizx(c),
        1 => {
            let k = 1 + (h / 4) as usize % n;
            let mut q = Circuit::new(c.n);
            for g in &c.gates[k..] {
                q.push(to_gate(g));
            }
            for g in c.gates[..k].iter().rev() {
                q.push_front(to_gate(g));
            }
            q
        }
        2 => {
            let mut q = Circuit::new(c.n);
            for g in c.gates.iter().rev() {
                q.push_front(to_gate(g));
            }
            q
        }
        _ => {
            let mut q = Circuit::new(c.n);
            for g in c.gates.iter().rev() {
                q.push(to_gate(g));
            }
            q.reverse();
            q
        }
    }
}

/// Convert a quizx circuit back into the harness type (for circuits produced by quizx,
/// e.g. extraction results). Returns Err on gate kinds the simulator does not know.
pub fn from_quizx(c: &Circuit) -> Result<Circ, String> {
    let mut gates = vec![];
    for g in c.gates.iter() {
        let r = g.phase.to_rational();
        let ph = (*r.numer(), *r.denom());
        let q = &g.qs;
        let need = |k: usize| -> Result<(), String> {
            if q.len() == k {
                Ok(())
            } else {
                Err(format!("gate {:?} has {} qubits", g.t, q.len()))
            }
        };
        let vars: Vec<u32> = g.vars.iter().collect();
        let h = match g.t {
            GType::ZPhase => {
                need(1)?;
                G::Rz(q[0], ph)
            }
            GType::XPhase => {
                need(1)?;
                G::Rx(q[0], ph)
            }
            GType::NOT => {
                need(1)?;
                G::X(q[0])
            }
            GType::Z => {
                need(1)?;
                G::Z(q[0])
            }
            GType::S => {
                need(1)?;
                G::S(q[0])
            }
            GType::T => {
                need(1)?;
                G::T(q[0])
            }
            GType::Sdg => {
                need(1)?;
                G::Sdg(q[0])
            }
            GType::Tdg => {
                need(1)?;
                G::Tdg(q[0])
            }
            GType::HAD => {
                need(1)?;
                G::H(q[0])
            }
            GType::CNOT => {
                need(2)?;
                G::Cx(q[0], q[1])
            }
            GType::CZ => {
                need(2)?;
                G::Cz(q[0], q[1])
            }
            GType::XCX => {
                need(2)?;
                G::Xcx(q[0], q[1])
            }
            GType::SWAP => {
                need(2)?;
                G::Swap(q[0], q[1])
            }
            GType::CCZ => {
                need(3)?;
                G::Ccz(q[0], q[1], q[2])
            }
            GType::TOFF => {
                need(3)?;
                G::Ccx(q[0], q[1], q[2])
            }
            GType::ParityPhase => G::Pp(q.clone(), ph),
            GType::InitAncilla => {
                need(1)?;
                G::InitAnc(q[0])
            }
            GType::PostSelect => {
                need(1)?;
                G::PostSel(q[0])
            }
            GType::Measure => {
                need(1)?;
                G::MeasureD(q[0], vars)
            }
            GType::MeasureReset => {
                need(1)?;
                G::MeasureR(q[0], vars)
            }
            GType::UnknownGate => return Err("UnknownGate".into()),
        };
        for &x in h.qubits().iter() {
            if x >= c.num_qubits() {
                return Err(format!("qubit {x} out of range"));
            }
        }
        gates.push(h);
    }
    Ok(Circ { n: c.num_qubits(), gates })
}

/// Independent QASM printer (does not use `Circuit::to_qasm`).
pub fn print_qasm(c: &Circ) -> String {
    let mut s = String::from("OPENQASM 2.0;\ninclude \"qelib1.inc\";\n");
    s += &format!("qreg q[{}];\n", c.n);
    for g in &c.gates {
        let qs: Vec<String> = g.qubits().iter().map(|q| format!("q[{q}]")).collect();
        let args = match g {
            G::Rz(_, p) | G::Rx(_, p) | G::Pp(_, p) => {
                if p.1 == 1 {
                    format!("({}*pi)", p.0)
                } else {
                    format!("({}*pi/{})", p.0, p.1)
                }
            }
            _ => String::new(),
        };
        s += &format!("{}{} {};\n", g.name(), args, qs.join(", "));
    }
    s
}

/// The same circuit written with the other spellings OpenQASM 2 allows: several registers,
/// the built-in `CX` next to qelib's `cx`, angles as `k*pi/d`, `pi*k/d`, a pi-multiple plus a
/// decimal, or plain decimal radians, comment lines. Returns the text and the circuit it
/// denotes: angles with a decimal part denote (pi-part + f32(decimal)/pi), stored as a
/// fraction over 2^40 (the reader keeps decimals in single precision, so these cases are judged
/// with the tolerance TOL_DECIMAL).
pub fn print_qasm_variants(c: &Circ, r: &mut Rng) -> (String, Circ) {
    print_qasm_variants_opt(c, r, true)
}

/// `decimals = false`: only the spellings that denote exactly the given circuit
pub fn print_qasm_variants_opt(c: &Circ, r: &mut Rng, decimals: bool) -> (String, Circ) {
    let n = c.n;
    // registers
    let nreg = if n >= 2 { 1 + r.below(3.min(n)) } else { 1 };
    let mut cuts: Vec<usize> = (1..n).collect();
    r.shuffle(&mut cuts);
    cuts.truncate(nreg - 1);
    cuts.sort();
    cuts.push(n);
    let names = ["q", "anc", "r2"];
    let mut qname: Vec<String> = vec![];
    let mut s = String::from("OPENQASM 2.0;\n");
    if r.chance(0.8) {
        s += "include \"qelib1.inc\";\n";
    }
    let mut lo = 0;
    for (k, &hi) in cuts.iter().enumerate() {
        s += &format!("qreg {}[{}];\n", names[k], hi - lo);
        for i in 0..(hi - lo) {
            qname.push(format!("{}[{}]", names[k], i));
        }
        lo = hi;
    }
    // classical registers that nothing uses: before, between or after the quantum ones they
    // must not change anything (sizes below, equal to and above the number of qubits)
    if r.chance(0.4) {
        let k = *r.pick(&[1usize, 2, n, n + 1, n + 3]);
        s += &format!("creg c[{}];\n", k.max(1));
        if r.chance(0.3) {
            s += "creg flags[2];\n";
        }
    }
    let mut out = Circ { n, gates: vec![] };
    let dec_pool: [f32; 8] = [0.1, 0.25, -0.3, 0.5, 1.5, 0.001, 2.0, -0.75];
    let to_frac = |x: f64| -> (i64, i64) {
        let d = 1i64 << 40;
        let q = quizx::phase::Phase::new(num::rational::Rational64::new((x * d as f64).round() as i64, d)).to_rational();
        (*q.numer(), *q.denom())
    };
    for g in &c.gates {
        if r.chance(0.08) {
            s += "// cx q[0], q[1];\n";
        }
        let qs: Vec<String> = g.qubits().iter().map(|&q| qname[q].clone()).collect();
        match g {
            G::Cx(..) if r.chance(0.4) => {
                s += &format!("CX {},{};\n", qs[0], qs[1]);
                out.gates.push(g.clone());
            }
            G::Rz(q, p) | G::Rx(q, p) => {
                let name = if matches!(g, G::Rz(..)) { "rz" } else { "rx" };
                let (k, d) = *p;
                let (arg, ph): (String, (i64, i64)) = match r.below(if decimals { 5 } else { 2 }) {
                    0 => (format!("{k}*pi/{d}"), *p),
                    1 => (format!("pi*{k}/{d}"), *p),
                    2 => {
                        let dec = *r.pick(&dec_pool);
                        (format!("{k}*pi/{d} + {dec}"), to_frac(k as f64 / d as f64 + dec as f64 / std::f64::consts::PI))
                    }
                    3 => {
                        let dec = *r.pick(&dec_pool);
                        (format!("{dec} + pi*{k}/{d}"), to_frac(k as f64 / d as f64 + dec as f64 / std::f64::consts::PI))
                    }
                    _ => {
                        let dec = *r.pick(&dec_pool);
                        (format!("{dec}"), to_frac(dec as f64 / std::f64::consts::PI))
                    }
                };
                s += &format!("{name}({arg}) {};\n", qs[0]);
                out.gates.push(if name == "rz" { G::Rz(*q, ph) } else { G::Rx(*q, ph) });
            }
            _ => {
                let one = print_qasm(&Circ { n, gates: vec![g.clone()] });
                // the gate line of the plain printer, with the register names substituted
                let line = one.lines().last().unwrap_or("");
                let head = line.split(' ').next().unwrap_or("");
                s += &format!("{head} {};\n", qs.join(", "));
                out.gates.push(g.clone());
            }
        }
    }
    (s, out)
}


pub fn circ_hash(c: &Circ) -> u64 {
    hash_bytes(format!("{c:?}").as_bytes())
}

pub fn circ_json(c: &Circ) -> serde_json::Value {
    serde_json::json!({"qubits": c.n, "gates": c.gates.iter().map(|g| format!("{g:?}")).collect::<Vec<_>>() })
}

//! G-hist: operation histories over the public `GraphLike` interface (property C09).
//!
//! An `Op` names vertices by *model ids* (opaque serial numbers handed out by the harness,
//! never reused), so a history stays meaningful when operations are deleted from it during
//! minimisation: an operation whose precondition no longer holds is simply skipped. The only
//! operation that carries a backend id is the named insertion, whose whole point is the name.
//!
//! The generator works online: it looks at the current reference model (and, for named
//! insertion, at which backend ids are free/live in both backends) and only emits operations
//! the documentation calls valid. It is biased to few vertices and delete/re-add churn so
//! that the vector backend's hole list and the hash backend's fresh counter are stressed.

use crate::gen::prng::Rng;
use crate::oracle::refgraph::{MData, Par, Ph, RefGraph, M};
use quizx::graph::{BasisElem, EType, VType};
use std::collections::BTreeMap;

#[derive(Clone, Debug, PartialEq)]
pub enum ListEdit {
    Push(M),
    Pop,
    Remove(usize),
    Insert(usize, M),
    Clear,
    Swap(usize, usize),
    RetainNot(M),
}

#[derive(Clone, Debug, PartialEq)]
pub enum ScalarEdit {
    /// `g.scalar_mut().mul_sqrt2_pow(p)`
    MulSqrt2Pow(i32),
    /// `g.scalar_mut().mul_phase((k,4))`
    MulPhase(i64),
    /// `*g.scalar_mut() *= Scalar4::new(c, p)`
    MulBy([i64; 4], i32),
    /// `*g.scalar_mut() = Scalar4::new(c, p)`
    Assign([i64; 4], i32),
}

/// the graph handed to `append_graph`
#[derive(Clone, Debug, PartialEq)]
pub enum Other {
    /// a clone of the receiver itself
    SelfClone,
    /// a small graph built from scratch; `cross` = built in the *other* backend type
    Small { verts: Vec<MData>, edges: Vec<(usize, usize, EType)>, scalar: ([i64; 4], i32), cross: bool },
}

#[derive(Clone, Debug, PartialEq)]
pub enum Op {
    AddVertex { ty: VType, m: M },
    AddVertexWithData { d: MData, m: M },
    AddVertexWithPhase { ty: VType, ph: (i64, i64), m: M },
    /// `add_named_vertex_with_data(v, d)`: v is a BACKEND id, the same in both backends
    AddNamed { v: usize, d: MData, m: M },
    RemoveVertex { m: M },
    AddEdge { s: M, t: M },
    AddEdgeWithType { s: M, t: M, e: EType },
    AddEdgeSmart { s: M, t: M, e: EType },
    RemoveEdge { s: M, t: M },
    SetEdgeType { s: M, t: M, e: EType },
    ToggleEdgeType { s: M, t: M },
    SetPhase { m: M, ph: (i64, i64) },
    AddToPhase { m: M, ph: (i64, i64) },
    SetVertexType { m: M, ty: VType },
    SetCoord { m: M, x: f64, y: f64 },
    SetQubit { m: M, q: f64 },
    SetRow { m: M, r: f64 },
    SetVars { m: M, vars: Par },
    AddToVars { m: M, vars: Par },
    SetInputs(Vec<M>),
    SetOutputs(Vec<M>),
    InputsMut(ListEdit),
    OutputsMut(ListEdit),
    Scalar(ScalarEdit),
    MulScalarFactor { key: usize, s: ([i64; 4], i32) },
    XToZ,
    Adjoint,
    /// every vertex gets a fresh unique tag in `qubit` (set_qubit), then `pack(force)`
    Pack { force: bool },
    /// `clone()`; the copy that is not continued is kept for `ttl` further operations to
    /// check independence. adopt = the history continues on the clone.
    Clone { adopt: bool, ttl: usize },
    /// tag, then `copy(adjoint)`; adopt = the history continues on the copy
    Copy { adjoint: bool, adopt: bool },
    ToAdjoint,
    /// tag, then `subgraph_from_vertices(verts)`
    Subgraph { verts: Vec<M> },
    /// `append_graph(&other)`; `new_ms[i]` is the model id of the copy of other's i-th vertex
    Append { other: Other, new_ms: Vec<M> },
    PlugVertex { m: M, b: BasisElem },
    PlugInput { i: usize, b: BasisElem },
    PlugOutput { i: usize, b: BasisElem },
    PlugInputs(Vec<BasisElem>),
    PlugOutputs(Vec<BasisElem>),
    /// terminal operation (loose postcondition check, the history ends here)
    MakeBipartite,
}

impl Op {
    pub fn kind(&self) -> &'static str {
        match self {
            Op::AddVertex { .. } => "add_vertex",
            Op::AddVertexWithData { .. } => "add_vertex_with_data",
            Op::AddVertexWithPhase { .. } => "add_vertex_with_phase",
            Op::AddNamed { .. } => "add_named_vertex_with_data",
            Op::RemoveVertex { .. } => "remove_vertex",
            Op::AddEdge { .. } => "add_edge",
            Op::AddEdgeWithType { .. } => "add_edge_with_type",
            Op::AddEdgeSmart { .. } => "add_edge_smart",
            Op::RemoveEdge { .. } => "remove_edge",
            Op::SetEdgeType { .. } => "set_edge_type",
            Op::ToggleEdgeType { .. } => "toggle_edge_type",
            Op::SetPhase { .. } => "set_phase",
            Op::AddToPhase { .. } => "add_to_phase",
            Op::SetVertexType { .. } => "set_vertex_type",
            Op::SetCoord { .. } => "set_coord",
            Op::SetQubit { .. } => "set_qubit",
            Op::SetRow { .. } => "set_row",
            Op::SetVars { .. } => "set_vars",
            Op::AddToVars { .. } => "add_to_vars",
            Op::SetInputs(_) => "set_inputs",
            Op::SetOutputs(_) => "set_outputs",
            Op::InputsMut(_) => "inputs_mut",
            Op::OutputsMut(_) => "outputs_mut",
            Op::Scalar(_) => "scalar_mut",
            Op::MulScalarFactor { .. } => "mul_scalar_factor",
            Op::XToZ => "x_to_z",
            Op::Adjoint => "adjoint",
            Op::Pack { force: true } => "pack(true)",
            Op::Pack { force: false } => "pack(false)",
            Op::Clone { .. } => "clone",
            Op::Copy { adjoint: false, .. } => "copy(false)",
            Op::Copy { adjoint: true, .. } => "copy(true)",
            Op::ToAdjoint => "to_adjoint",
            Op::Subgraph { .. } => "subgraph_from_vertices",
            Op::Append { .. } => "append_graph",
            Op::PlugVertex { .. } => "plug_vertex",
            Op::PlugInput { .. } => "plug_input",
            Op::PlugOutput { .. } => "plug_output",
            Op::PlugInputs(_) => "plug_inputs",
            Op::PlugOutputs(_) => "plug_outputs",
            Op::MakeBipartite => "make_bipartite",
        }
    }
}

pub fn apply_list_edit<T: Copy + PartialEq>(l: &mut Vec<T>, e: &ListEdit, tr: impl Fn(M) -> T) {
    match e {
        ListEdit::Push(m) => l.push(tr(*m)),
        ListEdit::Pop => {
            l.pop();
        }
        ListEdit::Remove(i) => {
            l.remove(*i);
        }
        ListEdit::Insert(i, m) => l.insert(*i, tr(*m)),
        ListEdit::Clear => l.clear(),
        ListEdit::Swap(i, j) => l.swap(*i, *j),
        ListEdit::RetainNot(m) => {
            let x = tr(*m);
            l.retain(|y| *y != x)
        }
    }
}

pub fn list_edit_valid(len: usize, e: &ListEdit, has: impl Fn(M) -> bool) -> bool {
    match e {
        ListEdit::Push(m) => has(*m),
        ListEdit::Pop | ListEdit::Clear => true,
        ListEdit::Remove(i) => *i < len,
        ListEdit::Insert(i, m) => *i <= len && has(*m),
        ListEdit::Swap(i, j) => *i < len && *j < len,
        ListEdit::RetainNot(m) => has(*m),
    }
}

// ---------------------------------------------------------------------------------------
// generator
// ---------------------------------------------------------------------------------------

#[derive(Clone, Debug)]
pub struct Profile {
    /// the generator steers the vertex count towards `2..=cap`
    pub cap: usize,
    /// allow named insertion at / beyond the vector backend's `vindex`
    pub named_beyond: bool,
    /// relative weight of add/remove churn (1.0 = default)
    pub churn: f64,
    pub len: usize,
}

impl Profile {
    pub fn draw(r: &mut Rng, named_beyond: bool, max_len: usize) -> Profile {
        let cap = *r.pick(&[3usize, 4, 4, 5, 6, 6, 8, 10, 12]);
        let churn = *r.pick(&[1.0, 1.0, 2.0, 3.0]);
        let len = match r.below(10) {
            0..=4 => r.range(20, 60),
            5..=7 => r.range(60, 150),
            _ => r.range(150, max_len as i64),
        } as usize;
        Profile { cap, named_beyond, churn, len: len.min(max_len) }
    }
}

/// what the generator may know about the backends (only needed for named insertion)
pub struct NamedView {
    /// backend ids free in both backends, ascending, covering `0..max(vindex)+5`
    pub free_both: Vec<usize>,
    /// backend ids live in both backends
    pub live_both: Vec<usize>,
    pub vindex_vec: usize,
    pub vindex_hash: usize,
}

pub const VTYPES: [VType; 7] = [VType::B, VType::Z, VType::X, VType::H, VType::WInput, VType::WOutput, VType::ZBox];

pub fn gen_vtype(r: &mut Rng) -> VType {
    match r.below(20) {
        0..=7 => VType::Z,
        8..=13 => VType::X,
        14..=16 => VType::B,
        17 => VType::H,
        18 => VType::ZBox,
        _ => {
            if r.chance(0.5) {
                VType::WInput
            } else {
                VType::WOutput
            }
        }
    }
}

pub fn gen_etype(r: &mut Rng) -> EType {
    match r.below(20) {
        0..=9 => EType::N,
        10..=18 => EType::H,
        _ => EType::Wio,
    }
}

/// possibly un-normalised phase (n, d)
pub fn gen_phase(r: &mut Rng) -> (i64, i64) {
    let d = *r.pick(&[1i64, 1, 2, 2, 4, 4, 4, 8, 3, 5, 16]);
    let n = r.range(-3 * d, 3 * d);
    (n, d)
}

pub fn gen_par(r: &mut Rng) -> Par {
    if r.chance(0.5) {
        return Par::default();
    }
    let mut vs = vec![];
    for v in 0..5u32 {
        if r.chance(0.3) {
            vs.push(v);
        }
    }
    Par::new(&vs, r.chance(0.3))
}

fn gen_f(r: &mut Rng) -> f64 {
    (r.range(-4, 16) as f64) * 0.5
}

pub fn gen_data(r: &mut Rng) -> MData {
    let (n, d) = gen_phase(r);
    MData { ty: gen_vtype(r), phase: Ph::new(n, d), vars: gen_par(r), qubit: gen_f(r), row: gen_f(r) }
}

fn gen_small_scalar(r: &mut Rng) -> ([i64; 4], i32) {
    match r.below(5) {
        0 => ([1, 0, 0, 0], 0),
        1 => {
            // omega^k
            let mut c = [0i64; 4];
            let k = r.below(8);
            c[k % 4] = if k >= 4 { -1 } else { 1 };
            (c, 0)
        }
        2 => ([0, 1, 0, -1], r.range(-2, 1) as i32), // sqrt2 * 2^p
        3 => ([r.range(-3, 3), r.range(-2, 2), r.range(-2, 2), r.range(-2, 2)], r.range(-2, 2) as i32),
        _ => ([1, 0, 0, 0], r.range(-3, 3) as i32),
    }
}

fn pick_vertex(r: &mut Rng, g: &RefGraph) -> Option<M> {
    let vs = g.vertices();
    if vs.is_empty() {
        None
    } else {
        Some(*r.pick(&vs))
    }
}

fn zx(ty: VType) -> bool {
    ty == VType::Z || ty == VType::X
}

fn fresh(next_m: &mut M) -> M {
    let m = *next_m;
    *next_m += 1;
    m
}

const BASIS: [BasisElem; 4] = [BasisElem::Z0, BasisElem::Z1, BasisElem::X0, BasisElem::X1];

/// Number of entries in the harness's pool of boolean expressions for scalar factors.
pub const EXPR_POOL: usize = 8;

/// Draw the next operation(s). Always returns at least one operation that is valid in the
/// current state (several when a compound move is needed, e.g. detaching a vertex from the
/// input list before removing it).
pub fn gen_ops(r: &mut Rng, g: &RefGraph, nv: &NamedView, p: &Profile, next_m: &mut M) -> Vec<Op> {
    let n = g.num_vertices();
    for _ in 0..40 {
        // category weights
        let grow = if n < 2 { 6.0 } else if n > p.cap { 0.3 } else { 1.0 };
        let shrink = if n > p.cap { 5.0 } else if n <= 1 { 0.2 } else { 1.0 };
        let w: [(u8, f64); 24] = [
            (0, 9.0 * grow * p.churn),   // add vertex (4 flavours)
            (1, 5.0 * grow.min(1.5)),    // named insertion
            (2, 8.0 * shrink * p.churn), // remove vertex
            (3, 8.0),                    // add_edge / add_edge_with_type
            (4, 9.0),                    // add_edge_smart
            (5, 4.0),                    // remove_edge
            (6, 4.0),                    // set_edge_type / toggle
            (7, 4.0),                    // set_phase / add_to_phase
            (8, 2.5),                    // set_vertex_type
            (9, 3.0),                    // coord / qubit / row
            (10, 2.5),                   // vars
            (11, 5.0),                   // inputs / outputs edits
            (12, 3.0),                   // scalar edits
            (13, 2.0),                   // scalar factor
            (14, 1.2),                   // x_to_z
            (15, 0.8),                   // adjoint
            (16, 4.0),                   // pack
            (17, 1.5),                   // clone
            (18, 1.2),                   // copy
            (19, 0.5),                   // to_adjoint
            (20, 1.2),                   // subgraph
            (21, 1.5 * grow.min(1.0)),   // append
            (22, 4.0),                   // plug_vertex / plug_input / plug_output / plug_inputs
            (23, 4.0 * grow.min(1.0)),   // boundary wiring compound (B vertex + edge + io entry)
        ];
        let total: f64 = w.iter().map(|x| x.1).sum();
        let mut x = r.f64() * total;
        let mut cat = 0u8;
        for (c, wt) in w.iter() {
            if x < *wt {
                cat = *c;
                break;
            }
            x -= *wt;
        }
        if let Some(ops) = gen_cat(r, cat, g, nv, p, next_m) {
            if !ops.is_empty() {
                return ops;
            }
        }
    }
    vec![Op::AddVertex { ty: VType::Z, m: fresh(next_m) }]
}

fn non_adjacent_pair(r: &mut Rng, g: &RefGraph) -> Option<(M, M)> {
    let vs = g.vertices();
    if vs.len() < 2 {
        return None;
    }
    for _ in 0..12 {
        let s = *r.pick(&vs);
        let t = *r.pick(&vs);
        if s != t && g.edge(s, t).is_none() {
            return Some((s, t));
        }
    }
    let mut all = vec![];
    for &s in &vs {
        for &t in &vs {
            if s != t && g.edge(s, t).is_none() {
                all.push((s, t));
            }
        }
    }
    if all.is_empty() {
        None
    } else {
        Some(*r.pick(&all))
    }
}

fn pick_edge(r: &mut Rng, g: &RefGraph) -> Option<(M, M, EType)> {
    let es = g.edges();
    if es.is_empty() {
        return None;
    }
    let (s, t, e) = *r.pick(&es);
    Some(if r.chance(0.5) { (s, t, e) } else { (t, s, e) })
}

fn gen_cat(r: &mut Rng, cat: u8, g: &RefGraph, nv: &NamedView, p: &Profile, next_m: &mut M) -> Option<Vec<Op>> {
    let in_io = |m: M| g.inputs.contains(&m) || g.outputs.contains(&m);
    let n = g.num_vertices();
    Some(match cat {
        0 => match r.below(4) {
            0 | 1 => vec![Op::AddVertex { ty: gen_vtype(r), m: fresh(next_m) }],
            2 => vec![Op::AddVertexWithData { d: gen_data(r), m: fresh(next_m) }],
            _ => vec![Op::AddVertexWithPhase { ty: gen_vtype(r), ph: gen_phase(r), m: fresh(next_m) }],
        },
        1 => {
            // named insertion: hole / at vindex / beyond vindex / live id
            let vmax = nv.vindex_vec.max(nv.vindex_hash);
            let holes: Vec<usize> = nv.free_both.iter().copied().filter(|&v| v < nv.vindex_vec).collect();
            let v = match r.below(10) {
                0..=3 if !holes.is_empty() => *r.pick(&holes),
                4..=5 if p.named_beyond => {
                    let c: Vec<usize> =
                        [nv.vindex_vec, nv.vindex_hash].into_iter().filter(|v| nv.free_both.contains(v)).collect();
                    if c.is_empty() {
                        return None;
                    }
                    *r.pick(&c)
                }
                6..=7 if p.named_beyond => vmax + 1 + r.below(4),
                8..=9 if !nv.live_both.is_empty() => *r.pick(&nv.live_both),
                _ => return None,
            };
            vec![Op::AddNamed { v, d: gen_data(r), m: fresh(next_m) }]
        }
        2 => {
            let m = pick_vertex(r, g)?;
            let mut ops = vec![];
            // harness policy: input/output lists only ever name live vertices
            if g.inputs.contains(&m) {
                ops.push(if r.chance(0.5) {
                    Op::InputsMut(ListEdit::RetainNot(m))
                } else {
                    Op::SetInputs(g.inputs.iter().copied().filter(|&x| x != m).collect())
                });
            }
            if g.outputs.contains(&m) {
                ops.push(if r.chance(0.5) {
                    Op::OutputsMut(ListEdit::RetainNot(m))
                } else {
                    Op::SetOutputs(g.outputs.iter().copied().filter(|&x| x != m).collect())
                });
            }
            ops.push(Op::RemoveVertex { m });
            ops
        }
        3 => {
            let (s, t) = non_adjacent_pair(r, g)?;
            if r.chance(0.35) {
                vec![Op::AddEdge { s, t }]
            } else {
                vec![Op::AddEdgeWithType { s, t, e: gen_etype(r) }]
            }
        }
        4 => {
            let nh = |r: &mut Rng| if r.chance(0.5) { EType::N } else { EType::H };
            match r.below(10) {
                0 => {
                    // self loop on a Z/X spider
                    let c: Vec<M> = g.v.iter().filter(|(_, d)| zx(d.ty)).map(|(&m, _)| m).collect();
                    if c.is_empty() {
                        return None;
                    }
                    let s = *r.pick(&c);
                    vec![Op::AddEdgeSmart { s, t: s, e: nh(r) }]
                }
                1..=6 => {
                    // parallel edge between Z/X spiders joined by an N/H edge
                    let c: Vec<(M, M)> = g
                        .edges()
                        .into_iter()
                        .filter(|&(s, t, e)| e != EType::Wio && zx(g.v[&s].ty) && zx(g.v[&t].ty))
                        .map(|(s, t, _)| (s, t))
                        .collect();
                    if c.is_empty() {
                        return None;
                    }
                    let (s, t) = *r.pick(&c);
                    let (s, t) = if r.chance(0.5) { (s, t) } else { (t, s) };
                    vec![Op::AddEdgeSmart { s, t, e: nh(r) }]
                }
                _ => {
                    let (s, t) = non_adjacent_pair(r, g)?;
                    vec![Op::AddEdgeSmart { s, t, e: gen_etype(r) }]
                }
            }
        }
        5 => {
            let (s, t, _) = pick_edge(r, g)?;
            vec![Op::RemoveEdge { s, t }]
        }
        6 => {
            let (s, t, _) = pick_edge(r, g)?;
            if r.chance(0.5) {
                vec![Op::SetEdgeType { s, t, e: gen_etype(r) }]
            } else {
                vec![Op::ToggleEdgeType { s, t }]
            }
        }
        7 => {
            let m = pick_vertex(r, g)?;
            if r.chance(0.5) {
                vec![Op::SetPhase { m, ph: gen_phase(r) }]
            } else {
                vec![Op::AddToPhase { m, ph: gen_phase(r) }]
            }
        }
        8 => vec![Op::SetVertexType { m: pick_vertex(r, g)?, ty: gen_vtype(r) }],
        9 => {
            let m = pick_vertex(r, g)?;
            match r.below(3) {
                0 => vec![Op::SetCoord { m, x: gen_f(r), y: gen_f(r) }],
                1 => vec![Op::SetQubit { m, q: gen_f(r) }],
                _ => vec![Op::SetRow { m, r: gen_f(r) }],
            }
        }
        10 => {
            let m = pick_vertex(r, g)?;
            if r.chance(0.4) {
                vec![Op::SetVars { m, vars: gen_par(r) }]
            } else {
                vec![Op::AddToVars { m, vars: gen_par(r) }]
            }
        }
        11 => {
            let out = r.chance(0.5);
            let list = if out { &g.outputs } else { &g.inputs };
            let vs = g.vertices();
            let wrap = |e: ListEdit| if out { Op::OutputsMut(e) } else { Op::InputsMut(e) };
            match r.below(8) {
                0 | 1 => {
                    // set the whole list: a random selection of live vertices, boundaries first
                    let mut sel: Vec<M> = vs.iter().copied().filter(|m| r.chance(if g.v[m].ty == VType::B { 0.6 } else { 0.15 })).collect();
                    r.shuffle(&mut sel);
                    sel.truncate(4);
                    vec![if out { Op::SetOutputs(sel) } else { Op::SetInputs(sel) }]
                }
                2 | 3 => vec![wrap(ListEdit::Push(pick_vertex(r, g)?))],
                4 if !list.is_empty() => vec![wrap(ListEdit::Remove(r.below(list.len())))],
                5 if !list.is_empty() => vec![wrap(ListEdit::Insert(r.below(list.len() + 1), pick_vertex(r, g)?))],
                6 if list.len() >= 2 => vec![wrap(ListEdit::Swap(r.below(list.len()), r.below(list.len())))],
                7 => vec![wrap(if r.chance(0.5) { ListEdit::Pop } else { ListEdit::Clear })],
                _ => return None,
            }
        }
        12 => {
            // keep quizx's scalar exact: bounded coefficient growth
            let roomy = g.scalar_bits() < 40;
            vec![Op::Scalar(match r.below(4) {
                0 => ScalarEdit::MulSqrt2Pow(r.range(-3, 3) as i32),
                1 => ScalarEdit::MulPhase(r.range(-8, 8)),
                2 if roomy => {
                    let (c, p) = gen_small_scalar(r);
                    ScalarEdit::MulBy(c, p)
                }
                _ => {
                    let (c, p) = gen_small_scalar(r);
                    ScalarEdit::Assign(c, p)
                }
            })]
        }
        13 => {
            let key = r.below(EXPR_POOL);
            let bits = g.factors.get(&key).map(|x| x.c.iter().map(|c| c.bits()).max().unwrap_or(0)).unwrap_or(0);
            if bits > 40 {
                return None;
            }
            vec![Op::MulScalarFactor { key, s: gen_small_scalar(r) }]
        }
        14 => vec![Op::XToZ],
        15 => vec![Op::Adjoint],
        16 => vec![Op::Pack { force: r.chance(0.65) }],
        17 => vec![Op::Clone { adopt: r.chance(0.5), ttl: 2 + r.below(8) }],
        18 => vec![Op::Copy { adjoint: r.chance(0.4), adopt: r.chance(0.5) }],
        19 => vec![Op::ToAdjoint],
        20 => {
            let mut vs = g.vertices();
            r.shuffle(&mut vs);
            if r.chance(0.3) && !vs.is_empty() {
                // a tiny selection around one vertex: it and up to three of its neighbours
                let v = vs[0];
                let mut sel = vec![v];
                let mut nb: Vec<M> = g.nbrs(v).into_iter().map(|x| x.0).collect();
                r.shuffle(&mut nb);
                let k = r.below(4);
                sel.extend(nb.into_iter().filter(|&w| w != v).take(k));
                vec![Op::Subgraph { verts: sel }]
            } else {
                let k = r.below(vs.len() + 1);
                vs.truncate(k);
                vec![Op::Subgraph { verts: vs }]
            }
        }
        21 => {
            if n > p.cap + 2 {
                return None;
            }
            if r.chance(0.3) && n <= 5 && g.scalar_bits() < 20 {
                let new_ms = g.vertices().iter().map(|_| fresh(next_m)).collect();
                vec![Op::Append { other: Other::SelfClone, new_ms }]
            } else {
                let k = r.below(4);
                let verts: Vec<MData> = (0..k).map(|_| gen_data(r)).collect();
                let mut edges = vec![];
                for i in 0..k {
                    for j in (i + 1)..k {
                        if r.chance(0.5) {
                            edges.push(if r.chance(0.5) { (i, j, gen_etype(r)) } else { (j, i, gen_etype(r)) });
                        }
                    }
                }
                let scalar = if g.scalar_bits() < 40 { gen_small_scalar(r) } else { ([1, 0, 0, 0], 0) };
                let new_ms = (0..k).map(|_| fresh(next_m)).collect();
                vec![Op::Append { other: Other::Small { verts, edges, scalar, cross: r.chance(0.5) }, new_ms }]
            }
        }
        22 => {
            let pluggable = |m: M| g.v[&m].ty == VType::B && g.degree(m) == 1;
            let once = |m: M| g.inputs.iter().chain(g.outputs.iter()).filter(|&&x| x == m).count() == 1;
            match r.below(6) {
                0 | 1 => {
                    let c: Vec<M> = g.vertices().into_iter().filter(|&m| pluggable(m)).collect();
                    if c.is_empty() || r.chance(0.1) {
                        vec![Op::PlugVertex { m: pick_vertex(r, g)?, b: BasisElem::SKIP }]
                    } else {
                        vec![Op::PlugVertex { m: *r.pick(&c), b: *r.pick(&BASIS) }]
                    }
                }
                2 | 3 => {
                    let out = r.chance(0.5);
                    let list = if out { &g.outputs } else { &g.inputs };
                    let c: Vec<usize> = (0..list.len()).filter(|&i| pluggable(list[i]) && once(list[i])).collect();
                    if c.is_empty() {
                        return None;
                    }
                    let i = *r.pick(&c);
                    let b = *r.pick(&BASIS);
                    vec![if out { Op::PlugOutput { i, b } } else { Op::PlugInput { i, b } }]
                }
                _ => {
                    let out = r.chance(0.5);
                    let list = if out { &g.outputs } else { &g.inputs };
                    if list.is_empty() {
                        return None;
                    }
                    let plug: Vec<BasisElem> = list
                        .iter()
                        .map(|&m| if pluggable(m) && once(m) && r.chance(0.7) { *r.pick(&BASIS) } else { BasisElem::SKIP })
                        .collect();
                    vec![if out { Op::PlugOutputs(plug) } else { Op::PlugInputs(plug) }]
                }
            }
        }
        23 => {
            // a boundary attached to some non-boundary vertex (or another loose boundary) and
            // registered as input or output
            let c: Vec<M> = g.vertices().into_iter().filter(|&m| g.v[&m].ty != VType::B || g.degree(m) == 0).collect();
            if c.is_empty() {
                return None;
            }
            let t = *r.pick(&c);
            let m = fresh(next_m);
            let e = if r.chance(0.6) { EType::N } else { EType::H };
            let reg = ListEdit::Push(m);
            let mut ops = vec![Op::AddVertex { ty: VType::B, m }, Op::AddEdgeWithType { s: m, t, e }];
            if g.v[&t].ty == VType::B && !in_io(t) {
                ops.push(Op::InputsMut(ListEdit::Push(t)));
                ops.push(Op::OutputsMut(reg));
            } else {
                ops.push(if r.chance(0.5) { Op::InputsMut(reg) } else { Op::OutputsMut(reg) });
            }
            ops
        }
        _ => return None,
    })
}

/// model of the small graph handed to `append_graph` (local ids 0..k)
pub fn small_other_model(verts: &[MData], edges: &[(usize, usize, EType)], scalar: &([i64; 4], i32)) -> Result<RefGraph, String> {
    let mut o = RefGraph::new();
    for (i, d) in verts.iter().enumerate() {
        o.add_vertex(i, d.clone())?;
    }
    for &(s, t, e) in edges {
        o.add_edge_with_type(s, t, e)?;
    }
    o.scalar = crate::oracle::ring::R::from_i64s(scalar.0, scalar.1 as i64);
    Ok(o)
}

pub fn names_for(other: &RefGraph, new_ms: &[M]) -> Option<BTreeMap<M, M>> {
    let vs = other.vertices();
    if vs.len() != new_ms.len() {
        return None;
    }
    Some(vs.into_iter().zip(new_ms.iter().copied()).collect())
}

//! G-tdiag: generators of graph-like Clifford+T diagrams (Z spiders, Hadamard edges,
//! phases k*pi/4) with a bounded T-count, for the stabiliser-decomposition monitor C05
//! and its sanitizer workloads. Families: random density, cat-rich (Pauli hubs with 3-6
//! T neighbours), gadget-rich, T-pair-rich (T-phase degree-2 vertices between a T spider
//! and a non-T spider), T-only with all four T phases, multi-component.
//!
//! Nothing in here touches `fw::ctx`, so the sanitizer binaries can use it.

use super::diagram::{gen_scalar, DDesc, DScalar, DV};
use super::prng::Rng;
use crate::oracle::eval::{EK, VK};

pub const T_PHASES: [(i64, i64); 4] = [(1, 4), (-1, 4), (3, 4), (-3, 4)];
pub const C_PHASES: [(i64, i64); 4] = [(0, 1), (1, 1), (1, 2), (-1, 2)];

/// Builder with a T budget.
pub struct B {
    pub verts: Vec<DV>,
    pub edges: Vec<(usize, usize, EK)>,
    pub tleft: usize,
}

impl B {
    pub fn new(max_t: usize) -> B {
        B { verts: vec![], edges: vec![], tleft: max_t }
    }
    pub fn z(&mut self, ph: (i64, i64)) -> usize {
        self.verts.push(DV { kind: VK::Z, ph, vars: vec![] });
        self.verts.len() - 1
    }
    /// a T spider if the budget allows
    pub fn t(&mut self, r: &mut Rng) -> Option<usize> {
        if self.tleft == 0 {
            return None;
        }
        self.tleft -= 1;
        Some(self.z(*r.pick(&T_PHASES)))
    }
    pub fn cliff(&mut self, r: &mut Rng) -> usize {
        self.z(*r.pick(&C_PHASES))
    }
    pub fn pauli(&mut self, r: &mut Rng) -> usize {
        self.z((r.range(0, 1), 1))
    }
    /// T with probability `p_t` (budget permitting), Clifford otherwise
    pub fn spider(&mut self, r: &mut Rng, p_t: f64) -> usize {
        if r.chance(p_t) {
            if let Some(v) = self.t(r) {
                return v;
            }
        }
        self.cliff(r)
    }
    pub fn h(&mut self, a: usize, b: usize) -> bool {
        if a == b {
            return false;
        }
        let (x, y) = (a.min(b), a.max(b));
        if self.edges.iter().any(|e| e.0 == x && e.1 == y) {
            return false;
        }
        self.edges.push((x, y, EK::H));
        true
    }
    pub fn is_t(&self, v: usize) -> bool {
        self.verts[v].ph.1 == 4
    }
    pub fn finish(self, r: &mut Rng) -> DDesc {
        let scalar = if r.chance(0.5) { DScalar { coeffs: [1, 0, 0, 0], pow: 0 } } else { gen_scalar(r) };
        DDesc { verts: self.verts, edges: self.edges, inputs: vec![], outputs: vec![], scalar }
    }
}

/// random-density chunk; returns the vertices it created
pub fn chunk_random(b: &mut B, r: &mut Rng, max_sp: usize) -> Vec<usize> {
    let ns = 1 + r.below(max_sp.max(1));
    let p_t = *r.pick(&[0.3, 0.5, 0.8, 1.0]);
    let vs: Vec<usize> = (0..ns).map(|_| b.spider(r, p_t)).collect();
    let density = *r.pick(&[0.15, 0.35, 0.6, 0.9]);
    for i in 0..ns {
        for j in (i + 1)..ns {
            if r.chance(density) {
                b.h(vs[i], vs[j]);
            }
        }
    }
    vs
}

/// all spiders T (all four T phases), dense or sparse
pub fn chunk_t_only(b: &mut B, r: &mut Rng, max_sp: usize) -> Vec<usize> {
    let ns = 1 + r.below(max_sp.max(1));
    let mut vs = vec![];
    for _ in 0..ns {
        if let Some(v) = b.t(r) {
            vs.push(v);
        }
    }
    let density = *r.pick(&[0.0, 0.3, 0.6, 1.0]);
    for i in 0..vs.len() {
        for j in (i + 1)..vs.len() {
            if r.chance(density) {
                b.h(vs[i], vs[j]);
            }
        }
    }
    vs
}

/// cat-rich chunk: 1-2 Pauli hubs (phase 0 or pi), each joined by H edges to 3-6 T
/// spiders and to nothing else; the T spiders may be shared between hubs, linked among
/// themselves and to a few extra spiders.
pub fn chunk_cats(b: &mut B, r: &mut Rng) -> Vec<usize> {
    let mut all = vec![];
    let mut ts: Vec<usize> = vec![];
    let nh = 1 + r.below(2);
    for _ in 0..nh {
        let k = 3 + r.below(4);
        let mut mine: Vec<usize> = vec![];
        // reuse some existing T spiders of this chunk
        let mut pool = ts.clone();
        r.shuffle(&mut pool);
        for &t in pool.iter() {
            if mine.len() < k && r.chance(0.4) {
                mine.push(t);
            }
        }
        while mine.len() < k {
            match b.t(r) {
                Some(t) => {
                    mine.push(t);
                    ts.push(t);
                    all.push(t);
                }
                None => break,
            }
        }
        if mine.len() < 3 {
            // budget exhausted: top up with whatever T spiders exist
            for &t in &ts {
                if mine.len() < 3 && !mine.contains(&t) {
                    mine.push(t);
                }
            }
        }
        let hub = b.pauli(r);
        all.push(hub);
        for &t in &mine {
            b.h(hub, t);
        }
    }
    // extra structure on the T spiders
    let dens = *r.pick(&[0.0, 0.2, 0.5]);
    for i in 0..ts.len() {
        for j in (i + 1)..ts.len() {
            if r.chance(dens) {
                b.h(ts[i], ts[j]);
            }
        }
    }
    let nx = r.below(3);
    for _ in 0..nx {
        let x = b.spider(r, 0.3);
        all.push(x);
        for &t in &ts {
            if r.chance(0.4) {
                b.h(x, t);
            }
        }
    }
    all
}

/// gadget-rich chunk: core spiders plus phase gadgets (Pauli hub + degree-1 T leaf) on
/// subsets of the core, some sharing their neighbourhood
pub fn chunk_gadgets(b: &mut B, r: &mut Rng) -> Vec<usize> {
    let nc = 1 + r.below(5);
    let core: Vec<usize> = (0..nc).map(|_| b.spider(r, 0.4)).collect();
    let mut all = core.clone();
    for i in 0..nc {
        for j in (i + 1)..nc {
            if r.chance(0.35) {
                b.h(core[i], core[j]);
            }
        }
    }
    let ng = 1 + r.below(3);
    let mut last: Vec<usize> = vec![];
    for _ in 0..ng {
        let hub = if r.chance(0.8) { b.pauli(r) } else { b.cliff(r) };
        let leaf = match b.t(r) {
            Some(t) => t,
            None => b.cliff(r),
        };
        b.h(hub, leaf);
        let nhd: Vec<usize> = if !last.is_empty() && r.chance(0.5) { last.clone() } else { core.iter().copied().filter(|_| r.chance(0.55)).collect() };
        for &c in &nhd {
            b.h(hub, c);
        }
        last = nhd;
        all.push(hub);
        all.push(leaf);
    }
    all
}

/// T-pair-rich chunk: a T spider v, a non-T spider w, and 1-3 T-phase spiders of degree 2
/// joined exactly to v and w (the shape DynamicTDriver's pair heuristic looks for), plus a
/// little surrounding structure.
pub fn chunk_tpair(b: &mut B, r: &mut Rng) -> Vec<usize> {
    let mut all = vec![];
    let v = match b.t(r) {
        Some(v) => v,
        None => b.cliff(r),
    };
    let w = b.cliff(r);
    all.push(v);
    all.push(w);
    let k = 1 + r.below(3);
    for _ in 0..k {
        if let Some(m) = b.t(r) {
            b.h(m, v);
            b.h(m, w);
            all.push(m);
        }
    }
    if r.chance(0.3) {
        b.h(v, w);
    }
    let nx = r.below(4);
    for _ in 0..nx {
        let x = b.spider(r, 0.5);
        all.push(x);
        if r.chance(0.6) {
            b.h(x, v);
        }
        if r.chance(0.6) {
            b.h(x, w);
        }
    }
    all
}

#[derive(Clone, Copy, Debug, PartialEq, Eq)]
pub enum TFam {
    Random,
    TOnly,
    Cats,
    Gadgets,
    TPair,
    Multi,
}

pub const ALL_FAMS: [TFam; 6] = [TFam::Random, TFam::TOnly, TFam::Cats, TFam::Gadgets, TFam::TPair, TFam::Multi];

fn chunk(b: &mut B, r: &mut Rng, fam: TFam, max_sp: usize) -> Vec<usize> {
    match fam {
        TFam::Random => chunk_random(b, r, max_sp),
        TFam::TOnly => chunk_t_only(b, r, max_sp),
        TFam::Cats => chunk_cats(b, r),
        TFam::Gadgets => chunk_gadgets(b, r),
        TFam::TPair => chunk_tpair(b, r),
        TFam::Multi => unreachable!(),
    }
}

/// A closed graph-like Clifford+T diagram with T-count <= max_t.
pub fn gen_closed(r: &mut Rng, fam: TFam, max_t: usize, max_sp: usize) -> DDesc {
    // the T budget itself is drawn so that small T-counts are well represented
    let budget = if r.chance(0.7) { max_t } else { r.below(max_t + 1) };
    let mut b = B::new(budget);
    match fam {
        TFam::Multi => {
            let nc = 2 + r.below(3);
            for _ in 0..nc {
                let f = *r.pick(&[TFam::Random, TFam::TOnly, TFam::Cats, TFam::Gadgets, TFam::TPair]);
                // split the budget: each component may use at most its share (+1)
                let share = (b.tleft / 2).max(1).min(b.tleft);
                let saved = b.tleft - share;
                b.tleft = share;
                chunk(&mut b, r, f, (max_sp / 2).max(1));
                b.tleft += saved;
            }
            // isolated spiders: T, Pauli (value 2 or 0), Clifford
            let ni = r.below(3);
            for _ in 0..ni {
                match r.below(4) {
                    0 => {
                        b.t(r);
                    }
                    1 => {
                        b.z((0, 1));
                    }
                    2 => {
                        if r.chance(0.3) {
                            b.z((1, 1));
                        } else {
                            b.z((1, 2));
                        }
                    }
                    _ => {
                        b.cliff(r);
                    }
                }
            }
        }
        f => {
            let vs = chunk(&mut b, r, f, max_sp);
            // sometimes a little extra random structure attached to the chunk
            if r.chance(0.3) && !vs.is_empty() {
                let extra = chunk_random(&mut b, r, 3);
                for &x in &extra {
                    let y = *r.pick(&vs);
                    // never attach to a Pauli hub of a cat (keeps the cat shape) -- hubs are Pauli
                    if b.verts[y].ph.1 != 1 || f != TFam::Cats {
                        b.h(x, y);
                    }
                }
            }
        }
    }
    b.finish(r)
}

/// Attach 1..=3 outputs (each to a distinct spider, plain edge; Hadamard edge with
/// probability 0.25) to a closed graph-like diagram, giving a graph-like diagram with
/// outputs. Returns false when the diagram has no spider to attach to.
pub fn add_outputs(d: &mut DDesc, r: &mut Rng, max_out: usize) -> bool {
    let ns = d.verts.len();
    if ns == 0 {
        return false;
    }
    let mut cand: Vec<usize> = (0..ns).collect();
    r.shuffle(&mut cand);
    let n = (1 + r.below(max_out.max(1))).min(ns);
    for &s in cand.iter().take(n) {
        let bnd = d.verts.len();
        d.verts.push(DV { kind: VK::B, ph: (0, 1), vars: vec![] });
        d.edges.push((s, bnd, if r.chance(0.25) { EK::H } else { EK::N }));
        d.outputs.push(bnd);
    }
    true
}

pub fn tcount(d: &DDesc) -> usize {
    d.verts.iter().filter(|v| v.kind != VK::B && v.ph.1 == 4).count()
}

//! G-diag: generators of well-formed ZX-diagrams as neutral descriptions that can be
//! built in either quizx backend.

use super::prng::{hash_bytes, Rng};
use crate::oracle::eval::{EK, VK};
use quizx::graph::{EType, GraphLike, VData, VType, V};
use quizx::params::Parity;
use quizx::phase::Phase;
use quizx::scalar::Scalar4;
use num::Rational64;
use serde_json::{json, Value};

#[derive(Clone, Debug, PartialEq, Eq, Hash)]
pub struct DV {
    pub kind: VK,
    pub ph: (i64, i64),
    pub vars: Vec<u32>,
}

/// Scalar description: coefficients * 2^pow
#[derive(Clone, Debug, PartialEq, Eq, Hash)]
pub struct DScalar {
    pub coeffs: [i64; 4],
    pub pow: i32,
}

#[derive(Clone, Debug, PartialEq, Eq, Hash)]
pub struct DDesc {
    pub verts: Vec<DV>,
    /// indices into verts, a < b, no duplicates
    pub edges: Vec<(usize, usize, EK)>,
    pub inputs: Vec<usize>,
    pub outputs: Vec<usize>,
    pub scalar: DScalar,
}

impl DDesc {
    pub fn hash(&self) -> u64 {
        hash_bytes(format!("{self:?}").as_bytes())
    }
    pub fn num_spiders(&self) -> usize {
        self.verts.iter().filter(|v| v.kind != VK::B).count()
    }
    pub fn has_vars(&self) -> bool {
        self.verts.iter().any(|v| !v.vars.is_empty())
    }
    pub fn var_set(&self) -> Vec<u32> {
        let mut s: Vec<u32> = self.verts.iter().flat_map(|v| v.vars.iter().copied()).collect();
        s.sort();
        s.dedup();
        s
    }
    pub fn all_pi4(&self) -> bool {
        self.verts.iter().all(|v| 4 % v.ph.1 == 0)
    }
    pub fn to_json(&self) -> Value {
        json!({
            "verts": self.verts.iter().enumerate().map(|(i, v)| {
                if v.vars.is_empty() { json!([i, format!("{:?}", v.kind), format!("{}/{}", v.ph.0, v.ph.1)]) }
                else { json!([i, format!("{:?}", v.kind), format!("{}/{}", v.ph.0, v.ph.1), v.vars]) }
            }).collect::<Vec<_>>(),
            "edges": self.edges.iter().map(|e| json!([e.0, e.1, format!("{:?}", e.2)])).collect::<Vec<_>>(),
            "inputs": self.inputs, "outputs": self.outputs,
            "scalar": format!("{:?}*2^{}", self.scalar.coeffs, self.scalar.pow),
        })
    }

    /// Build in backend G. With `scramble`, dummy vertices are interleaved and removed so
    /// that ids are not contiguous (the vector backend then has holes). Returns the graph
    /// and the id of each described vertex.
    pub fn build<G: GraphLike>(&self, scramble: Option<u64>) -> (G, Vec<V>) {
        let mut g = G::new();
        let mut ids = Vec::with_capacity(self.verts.len());
        let mut rng = scramble.map(Rng::new);
        let mut dummies: Vec<V> = vec![];
        // a third of the scrambled builds: the vertices get NAMES drawn without repetition from
        // 0..1.5n+2 in random order (named insertion), so that the numeric order of the ids has
        // nothing to do with the order of creation or with the structure
        let mut names: Option<Vec<V>> = None;
        if let (Some(r), Some(seed)) = (rng.as_mut(), scramble) {
            if seed % 3 == 0 {
                let n = self.verts.len();
                let mut pool: Vec<V> = (0..(n + n / 2 + 2)).collect();
                r.shuffle(&mut pool);
                pool.truncate(n);
                names = Some(pool);
            }
        }
        for (k, dv) in self.verts.iter().enumerate() {
            if names.is_some() {
                // (no interleaved dummies in this mode: the gaps come from the unused names)
            } else if let Some(r) = rng.as_mut() {
                while r.chance(0.3) {
                    dummies.push(g.add_vertex(VType::Z));
                }
                if !dummies.is_empty() && r.chance(0.4) {
                    let i = r.below(dummies.len());
                    let d = dummies.swap_remove(i);
                    g.remove_vertex(d);
                }
            }
            let ty = match dv.kind {
                VK::B => VType::B,
                VK::Z => VType::Z,
                VK::X => VType::X,
            };
            // cosmetic coordinates: all zero in a plain build, arbitrary (negative, repeated, not
            // in creation order, boundaries not at the ends) in a scrambled one - nothing a
            // diagram denotes may depend on them
            let (qubit, row) = match rng.as_mut() {
                Some(r) => (r.range(-2, 5) as f64, r.range(-4, 9) as f64 / 2.0),
                None => (0.0, 0.0),
            };
            let data = VData {
                ty,
                phase: Phase::new(Rational64::new(dv.ph.0, dv.ph.1)),
                vars: if dv.vars.is_empty() { Parity::new(Vec::<u32>::new(), false) } else { Parity::from(dv.vars.clone()) },
                qubit,
                row,
            };
            let v = match &names {
                Some(nm) => {
                    g.add_named_vertex_with_data(nm[k], data).expect("generator: fresh name refused");
                    nm[k]
                }
                None => g.add_vertex_with_data(data),
            };
            ids.push(v);
        }
        for d in dummies {
            g.remove_vertex(d);
        }
        for &(a, b, k) in &self.edges {
            g.add_edge_with_type(ids[a], ids[b], if k == EK::H { EType::H } else { EType::N });
        }
        g.set_inputs(self.inputs.iter().map(|&i| ids[i]).collect());
        g.set_outputs(self.outputs.iter().map(|&i| ids[i]).collect());
        *g.scalar_mut() = Scalar4::new(self.scalar.coeffs, self.scalar.pow);
        (g, ids)
    }
}

#[derive(Clone, Copy, Debug, PartialEq, Eq)]
pub enum PhasePool {
    /// multiples of pi/4
    Exact,
    /// {0, pi, +-pi/2} with probability 0.7, else other multiples of pi/4
    CliffordHeavy,
    /// multiples of pi only
    Pauli,
    /// denominators from {3,5,7,8,16,256,1024} mixed with pi/4 multiples
    Float,
}

pub fn gen_phase(r: &mut Rng, pool: PhasePool) -> (i64, i64) {
    let norm = |n: i64, d: i64| -> (i64, i64) {
        let p = Phase::new(Rational64::new(n, d)).to_rational();
        (*p.numer(), *p.denom())
    };
    match pool {
        PhasePool::Exact => norm(r.range(-3, 4), 4),
        PhasePool::Pauli => norm(r.range(0, 1), 1),
        PhasePool::CliffordHeavy => {
            if r.chance(0.7) {
                norm(r.range(-1, 2), 2)
            } else {
                norm(r.range(-3, 4), 4)
            }
        }
        PhasePool::Float => {
            if r.chance(0.4) {
                norm(r.range(-3, 4), 4)
            } else {
                let d = *r.pick(&[3i64, 5, 7, 8, 16, 256, 1024]);
                norm(r.range(-d + 1, d), d)
            }
        }
    }
}

pub fn gen_scalar(r: &mut Rng) -> DScalar {
    if r.chance(0.02) {
        // exactly zero: the diagram denotes the zero map whatever it looks like
        return DScalar { coeffs: [0, 0, 0, 0], pow: 0 };
    }
    match r.below(4) {
        0 => DScalar { coeffs: [1, 0, 0, 0], pow: 0 },
        1 => {
            // sqrt2^p * omega^k
            let k = r.below(8);
            let mut c = [0i64; 4];
            if k < 4 {
                c[k] = 1
            } else {
                c[k - 4] = -1
            }
            DScalar { coeffs: c, pow: r.range(-3, 3) as i32 }
        }
        _ => {
            let mut c = [0i64; 4];
            for x in c.iter_mut() {
                *x = r.range(-3, 3);
            }
            if c == [0; 4] {
                c[0] = 1;
            }
            DScalar { coeffs: c, pow: r.range(-2, 2) as i32 }
        }
    }
}

#[derive(Clone, Copy, Debug)]
pub struct DiagParams {
    pub max_spiders: usize,
    pub max_bnd: usize,
    pub pool: PhasePool,
    /// only Z spiders and H edges between spiders
    pub graph_like: bool,
    /// allow boundary-boundary wires
    pub bare_wires: bool,
    /// probability that a spider carries variables (C10)
    pub var_prob: f64,
}

fn add_edge(edges: &mut Vec<(usize, usize, EK)>, a: usize, b: usize, k: EK) -> bool {
    if a == b {
        return false;
    }
    let (x, y) = (a.min(b), a.max(b));
    if edges.iter().any(|e| e.0 == x && e.1 == y) {
        return false;
    }
    edges.push((x, y, k));
    true
}

fn gen_vars(r: &mut Rng, p: f64) -> Vec<u32> {
    if p > 0.0 && r.chance(p) {
        let pool = [0u32, 1, 2, 5];
        let mut vs: Vec<u32> = pool.iter().copied().filter(|_| r.chance(0.4)).collect();
        if vs.is_empty() {
            vs.push(*r.pick(&pool));
        }
        vs
    } else {
        vec![]
    }
}

/// Family (a)/(b): arbitrary or graph-like random diagram.
pub fn gen_random(r: &mut Rng, p: &DiagParams) -> DDesc {
    let ns = r.below(p.max_spiders + 1);
    let mut verts = vec![];
    for _ in 0..ns {
        let kind = if p.graph_like || r.chance(0.6) { VK::Z } else { VK::X };
        verts.push(DV { kind, ph: gen_phase(r, p.pool), vars: gen_vars(r, p.var_prob) });
    }
    let mut edges = vec![];
    let density = *r.pick(&[0.15, 0.35, 0.6]);
    for a in 0..ns {
        for b in (a + 1)..ns {
            if r.chance(density) {
                let k = if p.graph_like || r.chance(0.5) { EK::H } else { EK::N };
                edges.push((a, b, k));
            }
        }
    }
    let nb = r.below(p.max_bnd + 1);
    let mut bnds = vec![];
    let mut i = 0;
    while i < nb {
        let b = verts.len();
        verts.push(DV { kind: VK::B, ph: (0, 1), vars: vec![] });
        let ek = if r.chance(0.35) { EK::H } else { EK::N };
        if ns == 0 || (p.bare_wires && i + 1 < nb && r.chance(0.15)) {
            if i + 1 < nb || ns == 0 {
                // bare wire to another new boundary
                let b2 = verts.len();
                verts.push(DV { kind: VK::B, ph: (0, 1), vars: vec![] });
                edges.push((b, b2, ek));
                bnds.push(b);
                bnds.push(b2);
                i += 2;
                continue;
            }
        }
        let s = r.below(ns);
        edges.push((s.min(b), s.max(b), ek));
        bnds.push(b);
        i += 1;
    }
    r.shuffle(&mut bnds);
    let cut = if bnds.is_empty() { 0 } else { r.below(bnds.len() + 1) };
    let inputs = bnds[..cut].to_vec();
    let outputs = bnds[cut..].to_vec();
    DDesc { verts, edges, inputs, outputs, scalar: gen_scalar(r) }
}

/// Family (d): gadget-rich graph-like diagrams: hubs with degree-1 leaves sharing
/// neighbourhoods, pi hubs, duplicate Pauli vertices, vertices next to several boundaries.
pub fn gen_gadget_rich(r: &mut Rng, max_core: usize, pool: PhasePool, var_prob: f64) -> DDesc {
    let nc = 1 + r.below(max_core.max(1));
    let mut verts = vec![];
    let mut edges = vec![];
    for _ in 0..nc {
        verts.push(DV { kind: VK::Z, ph: gen_phase(r, pool), vars: gen_vars(r, var_prob) });
    }
    for a in 0..nc {
        for b in (a + 1)..nc {
            if r.chance(0.3) {
                edges.push((a, b, EK::H));
            }
        }
    }
    // gadgets: hub (phase 0 or pi) + leaf, hub connected to a random subset of core
    let ng = r.below(4);
    let mut last_nhd: Vec<usize> = vec![];
    for _ in 0..ng {
        let hub = verts.len();
        let hub_ph = if r.chance(0.3) { (1, 1) } else { (0, 1) };
        verts.push(DV { kind: VK::Z, ph: hub_ph, vars: vec![] });
        let leaf = verts.len();
        verts.push(DV { kind: VK::Z, ph: gen_phase(r, pool), vars: gen_vars(r, var_prob) });
        let leaf_ek = if r.chance(0.9) { EK::H } else { EK::N };
        edges.push((hub, leaf, leaf_ek));
        // share neighbourhood with previous gadget with prob 0.6
        let nhd: Vec<usize> = if !last_nhd.is_empty() && r.chance(0.6) {
            last_nhd.clone()
        } else {
            (0..nc).filter(|_| r.chance(0.5)).collect()
        };
        for &c in &nhd {
            edges.push((c, hub, EK::H));
        }
        last_nhd = nhd;
    }
    // duplicate Pauli vertices: two phase-0/pi vertices with the same neighbourhood
    if r.chance(0.4) && nc >= 2 {
        let nhd: Vec<usize> = (0..nc).filter(|_| r.chance(0.5)).collect();
        if !nhd.is_empty() {
            for _ in 0..2 {
                let v = verts.len();
                verts.push(DV { kind: VK::Z, ph: (r.range(0, 1), 1), vars: gen_vars(r, var_prob) });
                for &c in &nhd {
                    edges.push((c, v, EK::H));
                }
            }
        }
    }
    // boundaries on core vertices, possibly several on one
    let nb = r.below(5);
    let mut bnds = vec![];
    for _ in 0..nb {
        let b = verts.len();
        verts.push(DV { kind: VK::B, ph: (0, 1), vars: vec![] });
        let s = r.below(nc);
        edges.push((s, b, if r.chance(0.5) { EK::H } else { EK::N }));
        bnds.push(b);
    }
    let cut = if bnds.is_empty() { 0 } else { r.below(bnds.len() + 1) };
    let inputs = bnds[..cut].to_vec();
    let outputs = bnds[cut..].to_vec();
    // normalise edges (a<b) and drop duplicates
    let mut es: Vec<(usize, usize, EK)> = vec![];
    for (a, b, k) in edges {
        add_edge(&mut es, a, b, k);
    }
    DDesc { verts, edges: es, inputs, outputs, scalar: gen_scalar(r) }
}

/// Replace the variable parities of a description by parities over `nvars` variables:
/// a mix of short ones (1-2 variables, skewed towards the low indices so that equal parities
/// on different spiders are common) and long ones (each variable with probability 0.6).
pub fn rewire_vars(d: &mut DDesc, r: &mut Rng, nvars: u32, p: f64) {
    rewire_vars_from(d, r, nvars, p, 0)
}

/// The same with variable numbers offset..offset+nvars (numbers around 63/64, 127/128, 2^20)
pub fn rewire_vars_from(d: &mut DDesc, r: &mut Rng, nvars: u32, p: f64, offset: u32) {
    rewire_vars_inner(d, r, nvars, p);
    for v in d.verts.iter_mut() {
        for x in v.vars.iter_mut() {
            *x += offset;
        }
    }
}

fn rewire_vars_inner(d: &mut DDesc, r: &mut Rng, nvars: u32, p: f64) {
    for v in d.verts.iter_mut() {
        if v.kind == VK::B {
            continue;
        }
        v.vars.clear();
        if !r.chance(p) {
            continue;
        }
        if r.chance(0.55) {
            let k = 1 + r.below(2);
            for _ in 0..k {
                let x = (r.below(nvars as usize).min(r.below(nvars as usize))) as u32;
                if !v.vars.contains(&x) {
                    v.vars.push(x);
                }
            }
        } else {
            v.vars = (0..nvars).filter(|_| r.chance(0.6)).collect();
        }
        v.vars.sort();
    }
}

/// Scalar forests: many tiny closed components (isolated spiders, same- and mixed-colour
/// pairs on either edge type, short chains) whose spiders carry parities over `nvars`
/// variables; the two spiders of a pair often carry the same parity. Simplifying them produces
/// one conditional scalar factor per component, i.e. large factor tables.
pub fn gen_scalar_forest(r: &mut Rng, min_comp: usize, max_comp: usize, pool: PhasePool, nvars: u32) -> DDesc {
    let nc = min_comp + r.below(max_comp - min_comp + 1);
    let mut verts: Vec<DV> = vec![];
    let mut edges: Vec<(usize, usize, EK)> = vec![];
    let parity = |r: &mut Rng| -> Vec<u32> {
        match r.below(10) {
            0 => vec![],
            1..=4 => {
                let mut v: Vec<u32> = (0..(1 + r.below(2))).map(|_| r.below(nvars as usize) as u32).collect();
                v.sort();
                v.dedup();
                v
            }
            _ => (0..nvars).filter(|_| r.chance(0.5)).collect(),
        }
    };
    // phases away from the values that make a component vanish, most of the time
    let ph = |r: &mut Rng| if r.chance(0.8) { *r.pick(&[(1i64, 4i64), (1, 2), (3, 4), (-1, 4), (-1, 2), (0, 1)]) } else { gen_phase(r, pool) };
    for _ in 0..nc {
        let kind = |r: &mut Rng| if r.chance(0.7) { VK::Z } else { VK::X };
        match r.below(10) {
            0..=4 => verts.push(DV { kind: kind(r), ph: ph(r), vars: parity(r) }),
            5..=8 => {
                let a = verts.len();
                let pa = parity(r);
                let pb = if r.chance(0.35) { pa.clone() } else { parity(r) };
                verts.push(DV { kind: kind(r), ph: ph(r), vars: pa });
                verts.push(DV { kind: kind(r), ph: ph(r), vars: pb });
                edges.push((a, a + 1, if r.chance(0.5) { EK::N } else { EK::H }));
            }
            _ => {
                let a = verts.len();
                let len = 3 + r.below(2);
                for i in 0..len {
                    verts.push(DV { kind: kind(r), ph: ph(r), vars: parity(r) });
                    if i > 0 {
                        edges.push((a + i - 1, a + i, if r.chance(0.5) { EK::N } else { EK::H }));
                    }
                }
            }
        }
    }
    DDesc { verts, edges, inputs: vec![], outputs: vec![], scalar: gen_scalar(r) }
}

/// Hubs: one or two spiders of degree 129-220 (above the 64/128 marks where adjacency
/// representations tend to switch strategy) with leaves of mixed phase, colour and edge type;
/// the hubs carry non-Clifford phases most of the time, so that the simplifiers do not turn
/// the star into a clique that nothing can evaluate.
pub fn gen_hub(r: &mut Rng, min_leaves: usize, max_leaves: usize, pool: PhasePool, graph_like: bool) -> DDesc {
    let nl = min_leaves + r.below(max_leaves - min_leaves + 1);
    let nh = 1 + r.below(2);
    let mut verts = vec![];
    let mut edges: Vec<(usize, usize, EK)> = vec![];
    for _ in 0..nh {
        let ph = if r.chance(0.85) { *r.pick(&[(1i64, 4i64), (3, 4), (-1, 4), (-3, 4)]) } else { gen_phase(r, pool) };
        verts.push(DV { kind: VK::Z, ph, vars: vec![] });
    }
    if nh == 2 && r.chance(0.5) {
        edges.push((0, 1, EK::H));
    }
    let ek = |r: &mut Rng| if graph_like || r.chance(0.5) { EK::H } else { EK::N };
    for i in 0..nl {
        let v = verts.len();
        let kind = if graph_like || r.chance(0.7) { VK::Z } else { VK::X };
        verts.push(DV { kind, ph: gen_phase(r, pool), vars: vec![] });
        let h = if nh == 2 && i % 3 == 2 { 1 } else { 0 };
        let k = ek(r);
        edges.push((h, v, k));
        if nh == 2 && r.chance(0.05) {
            let k = ek(r);
            edges.push((1 - h, v, k));
        }
    }
    let nb = r.below(4);
    let mut bnds = vec![];
    for _ in 0..nb {
        let b = verts.len();
        verts.push(DV { kind: VK::B, ph: (0, 1), vars: vec![] });
        let s = if r.chance(0.4) { r.below(nh) } else { nh + r.below(nl) };
        edges.push((s, b, if r.chance(0.3) { EK::H } else { EK::N }));
        bnds.push(b);
    }
    let cut = if bnds.is_empty() { 0 } else { r.below(bnds.len() + 1) };
    let inputs = bnds[..cut].to_vec();
    let outputs = bnds[cut..].to_vec();
    DDesc { verts, edges, inputs, outputs, scalar: gen_scalar(r) }
}

/// Pi gadgets: 2-3 hubs with phase pi (mostly), each with 2-3 non-Clifford leaves on Hadamard
/// edges created in interleaved order, over a small core. What `remove_gadget_pi` and the
/// gadget fusion of `full_simp` work on after the Clifford part has been simplified.
pub fn gen_pi_gadgets(r: &mut Rng) -> DDesc {
    let nc = 1 + r.below(3);
    let mut verts = vec![];
    let mut edges: Vec<(usize, usize, EK)> = vec![];
    for _ in 0..nc {
        verts.push(DV { kind: VK::Z, ph: gen_phase(r, PhasePool::Exact), vars: vec![] });
    }
    for a in 0..nc {
        for b in (a + 1)..nc {
            if r.chance(0.4) {
                edges.push((a, b, EK::H));
            }
        }
    }
    let nh = 2 + r.below(2);
    let mut pending = vec![];
    for _ in 0..nh {
        let hub = verts.len();
        let ph = if r.chance(0.8) { (1, 1) } else { (0, 1) };
        verts.push(DV { kind: VK::Z, ph, vars: vec![] });
        let mut nhd: Vec<usize> = (0..nc).filter(|_| r.chance(0.6)).collect();
        if nhd.is_empty() && r.chance(0.7) {
            nhd.push(r.below(nc));
        }
        for c in nhd {
            edges.push((c, hub, EK::H));
        }
        pending.push((hub, 2 + r.below(2)));
    }
    for j in 0..3 {
        for &(hub, nl) in &pending {
            if j < nl {
                let leaf = verts.len();
                let ph = *r.pick(&[(1i64, 4i64), (-1, 4), (3, 4), (-3, 4)]);
                verts.push(DV { kind: VK::Z, ph, vars: vec![] });
                edges.push((hub, leaf, EK::H));
            }
        }
    }
    let nb = r.below(5);
    let mut bnds = vec![];
    for _ in 0..nb {
        let b = verts.len();
        verts.push(DV { kind: VK::B, ph: (0, 1), vars: vec![] });
        let s = r.below(nc);
        edges.push((s, b, if r.chance(0.5) { EK::H } else { EK::N }));
        bnds.push(b);
    }
    let cut = if bnds.is_empty() { 0 } else { r.below(bnds.len() + 1) };
    let inputs = bnds[..cut].to_vec();
    let outputs = bnds[cut..].to_vec();
    DDesc { verts, edges, inputs, outputs, scalar: gen_scalar(r) }
}

/// Matcher-edge shapes around phase gadgets: 2-3 hubs over a small core, where a hub may have
/// no leaf, one leaf or several leaves, a leaf may hang on a plain edge, hubs may carry a
/// phase, be adjacent, be X spiders, or have neighbourhoods that differ in one vertex only.
/// Most of these are *near* matches of gadget fusion / duplicate removal / pi-gadget removal.
pub fn gen_gadget_pairs(r: &mut Rng, pool: PhasePool, var_prob: f64) -> DDesc {
    let nc = 1 + r.below(4);
    let mut verts = vec![];
    let mut edges: Vec<(usize, usize, EK)> = vec![];
    for _ in 0..nc {
        verts.push(DV { kind: VK::Z, ph: gen_phase(r, pool), vars: gen_vars(r, var_prob) });
    }
    for a in 0..nc {
        for b in (a + 1)..nc {
            if r.chance(0.3) {
                edges.push((a, b, EK::H));
            }
        }
    }
    let base: Vec<usize> = {
        let mut v: Vec<usize> = (0..nc).filter(|_| r.chance(0.6)).collect();
        if v.is_empty() {
            v.push(r.below(nc));
        }
        v
    };
    let nh = 2 + r.below(2);
    let mut hubs = vec![];
    let interleave = r.chance(0.5);
    let mut pending: Vec<(usize, usize)> = vec![];
    for _ in 0..nh {
        let hub = verts.len();
        let ph = match r.below(10) {
            0..=5 => (0, 1),
            6..=7 => (1, 1),
            _ => gen_phase(r, pool),
        };
        let kind = if r.chance(0.05) { VK::X } else { VK::Z };
        verts.push(DV { kind, ph, vars: gen_vars(r, var_prob * 0.5) });
        // neighbourhood: the shared one, sometimes with one vertex dropped or added
        let mut nhd = base.clone();
        if r.chance(0.2) && nhd.len() > 1 {
            let i = r.below(nhd.len());
            nhd.remove(i);
        }
        if r.chance(0.15) {
            let x = r.below(nc);
            if !nhd.contains(&x) {
                nhd.push(x);
            }
        }
        for &c in &nhd {
            let k = if r.chance(0.93) { EK::H } else { EK::N };
            add_edge(&mut edges, c, hub, k);
        }
        let nl = *r.pick(&[0usize, 1, 1, 1, 1, 2, 2, 3]);
        if interleave {
            pending.push((hub, nl));
        } else {
            for _ in 0..nl {
                let leaf = verts.len();
                verts.push(DV { kind: VK::Z, ph: gen_phase(r, pool), vars: gen_vars(r, var_prob) });
                edges.push((hub, leaf, if r.chance(0.9) { EK::H } else { EK::N }));
            }
        }
        hubs.push(hub);
    }
    // interleaved creation order: a0 b0 a1 b1 ... (the leaves of different hubs alternate in
    // vertex order, which is the order the simplifiers iterate in)
    let rounds = pending.iter().map(|p| p.1).max().unwrap_or(0);
    for j in 0..rounds {
        for &(hub, nl) in &pending {
            if j < nl {
                let leaf = verts.len();
                verts.push(DV { kind: VK::Z, ph: gen_phase(r, pool), vars: gen_vars(r, var_prob) });
                edges.push((hub, leaf, if r.chance(0.9) { EK::H } else { EK::N }));
            }
        }
    }
    if r.chance(0.1) {
        add_edge(&mut edges, hubs[0], hubs[1], EK::H);
    }
    let nb = r.below(4);
    let mut bnds = vec![];
    for _ in 0..nb {
        let b = verts.len();
        verts.push(DV { kind: VK::B, ph: (0, 1), vars: vec![] });
        // mostly on the core; occasionally on a hub
        let s = if r.chance(0.9) { r.below(nc) } else { *r.pick(&hubs) };
        edges.push((s.min(b), s.max(b), if r.chance(0.5) { EK::H } else { EK::N }));
        bnds.push(b);
    }
    let cut = if bnds.is_empty() { 0 } else { r.below(bnds.len() + 1) };
    let inputs = bnds[..cut].to_vec();
    let outputs = bnds[cut..].to_vec();
    let mut es: Vec<(usize, usize, EK)> = vec![];
    for (a, b, k) in edges {
        add_edge(&mut es, a, b, k);
    }
    DDesc { verts, edges: es, inputs, outputs, scalar: gen_scalar(r) }
}

/// Family (e): the `index`-th tiny diagram of the exhaustive enumeration with exactly `ns`
/// spiders: colours {Z,X}, phases from `phases`, pairwise edges {none,N,H}, and `nb` in
/// 0..=2 boundaries each attached to a spider with N or H (or, if ns = 0, a bare wire).
/// Returns None when index is out of range. The space size is given by `tiny_space`.
/// the first five are used for three spiders; up to two spiders run over all eight multiples of pi/4
pub const TINY_PHASES: [(i64, i64); 8] = [(0, 1), (1, 4), (1, 2), (1, 1), (-1, 2), (3, 4), (-1, 4), (-3, 4)];

fn tiny_nph(ns: usize) -> u64 {
    if ns <= 2 {
        8
    } else {
        5
    }
}

pub fn tiny_space(ns: usize) -> u64 {
    // per spider: 2 colours * 8 phases (5 for three spiders); per pair: 3; boundaries: for nb in 0..=2:
    //   each boundary: ns choices * 2 edge kinds ; io split: each boundary input or output (2^nb)
    let sp = (2 * tiny_nph(ns)).pow(ns as u32);
    let pairs = 3u64.pow((ns * ns.saturating_sub(1) / 2) as u32);
    let mut bsum = 0u64;
    for nb in 0..=2u32 {
        if ns == 0 && nb > 0 {
            continue;
        }
        bsum += (ns as u64 * 2 * 2).pow(nb);
    }
    sp * pairs * bsum
}

pub fn tiny_diagram(ns: usize, mut index: u64) -> Option<DDesc> {
    if index >= tiny_space(ns) {
        return None;
    }
    let mut verts = vec![];
    for _ in 0..ns {
        let c = index % 2;
        index /= 2;
        let p = (index % tiny_nph(ns)) as usize;
        index /= tiny_nph(ns);
        verts.push(DV { kind: if c == 0 { VK::Z } else { VK::X }, ph: TINY_PHASES[p], vars: vec![] });
    }
    let mut edges = vec![];
    for a in 0..ns {
        for b in (a + 1)..ns {
            let e = index % 3;
            index /= 3;
            match e {
                1 => edges.push((a, b, EK::N)),
                2 => edges.push((a, b, EK::H)),
                _ => {}
            }
        }
    }
    // boundary block
    let per = (ns as u64) * 4; // spider * edge kind * in/out
    let mut nb = 0u32;
    loop {
        let block = if ns == 0 && nb > 0 { 0 } else { per.pow(nb) };
        if index < block {
            break;
        }
        index -= block;
        nb += 1;
        if nb > 2 {
            return None;
        }
    }
    let mut inputs = vec![];
    let mut outputs = vec![];
    for _ in 0..nb {
        let s = (index % ns as u64) as usize;
        index /= ns as u64;
        let k = if index % 2 == 0 { EK::N } else { EK::H };
        index /= 2;
        let io = index % 2;
        index /= 2;
        let b = verts.len();
        verts.push(DV { kind: VK::B, ph: (0, 1), vars: vec![] });
        edges.push((s, b, k));
        if io == 0 {
            inputs.push(b)
        } else {
            outputs.push(b)
        }
    }
    Some(DDesc { verts, edges, inputs, outputs, scalar: DScalar { coeffs: [1, 0, 0, 0], pow: 0 } })
}

/// Long sparse diagrams: 40-120 spiders arranged as a random tree in which every new spider
/// hangs off one of the last three, plus a few short-range extra edges, so that the
/// tree-width stays tiny (the evaluator remains fast) while the vertex count is far above
/// what the dense families reach: vector-backend packing thresholds, ids above 64, long
/// fusion / identity-removal chains.
pub fn gen_long_sparse(r: &mut Rng, min_sp: usize, max_sp: usize, pool: PhasePool, graph_like: bool, var_prob: f64) -> DDesc {
    let ns = min_sp + r.below(max_sp - min_sp + 1);
    let mut verts = vec![];
    let mut edges: Vec<(usize, usize, EK)> = vec![];
    let ek = |r: &mut Rng| if graph_like || r.chance(0.5) { EK::H } else { EK::N };
    for i in 0..ns {
        let kind = if graph_like || r.chance(0.6) { VK::Z } else { VK::X };
        // many phase-0 spiders of degree 2 (identity removal chains) and Paulis (pivots)
        let ph = if r.chance(0.35) { (0, 1) } else { gen_phase(r, pool) };
        verts.push(DV { kind, ph, vars: gen_vars(r, var_prob) });
        if i > 0 {
            let back = 1 + r.below(3.min(i));
            let k = ek(r);
            edges.push((i - back, i, k));
            if i >= 3 && r.chance(0.15) {
                let b2 = 2 + r.below(2);
                if b2 != back && i >= b2 {
                    let k = ek(r);
                    add_edge(&mut edges, i - b2, i, k);
                }
            }
        }
    }
    let nb = r.below(4);
    let mut bnds = vec![];
    for _ in 0..nb {
        let b = verts.len();
        verts.push(DV { kind: VK::B, ph: (0, 1), vars: vec![] });
        let s = r.below(ns);
        edges.push((s, b, if r.chance(0.3) { EK::H } else { EK::N }));
        bnds.push(b);
    }
    let cut = if bnds.is_empty() { 0 } else { r.below(bnds.len() + 1) };
    let inputs = bnds[..cut].to_vec();
    let outputs = bnds[cut..].to_vec();
    DDesc { verts, edges, inputs, outputs, scalar: gen_scalar(r) }
}

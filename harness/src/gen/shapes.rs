//! Generator for the diagram shapes the C08 quantifier lists explicitly: closed diagrams,
//! disconnected diagrams, boundary-boundary wires (N and H; input-input, input-output,
//! output-output), X spiders, isolated spiders, several boundaries on one spider.
//! A diagram is a disjoint union of small components whose boundaries are pooled,
//! shuffled and split into inputs/outputs at a random position.

use super::diagram::{gen_phase, gen_random, gen_scalar, DDesc, DScalar, DiagParams, PhasePool, DV};
use super::prng::Rng;
use crate::oracle::eval::{EK, VK};

#[derive(Clone, Copy, Debug, Default, PartialEq, Eq)]
pub struct ShapeFlags {
    pub closed: bool,
    pub disconnected: bool,
    pub bare_n: bool,
    pub bare_h: bool,
    pub x_spider: bool,
    pub isolated: bool,
    pub multi_boundary_spider: bool,
}

impl ShapeFlags {
    pub fn names(&self) -> Vec<&'static str> {
        let mut v = vec![];
        if self.closed {
            v.push("closed");
        }
        if self.disconnected {
            v.push("disconnected");
        }
        if self.bare_n {
            v.push("bare-wire-N");
        }
        if self.bare_h {
            v.push("bare-wire-H");
        }
        if self.x_spider {
            v.push("x-spider");
        }
        if self.isolated {
            v.push("isolated-spider");
        }
        if self.multi_boundary_spider {
            v.push("multi-boundary-spider");
        }
        v
    }
}

/// Flags of an arbitrary description (computed, not assumed).
pub fn flags_of(d: &DDesc) -> ShapeFlags {
    let n = d.verts.len();
    let mut f = ShapeFlags { closed: d.inputs.is_empty() && d.outputs.is_empty(), ..Default::default() };
    let mut deg = vec![0usize; n];
    let mut bdeg = vec![0usize; n];
    let mut parent: Vec<usize> = (0..n).collect();
    fn find(p: &mut Vec<usize>, x: usize) -> usize {
        let mut r = x;
        while p[r] != r {
            r = p[r];
        }
        p[x] = r;
        r
    }
    for &(a, b, k) in &d.edges {
        deg[a] += 1;
        deg[b] += 1;
        let (ka, kb) = (d.verts[a].kind, d.verts[b].kind);
        if ka == VK::B && kb == VK::B {
            if k == EK::N {
                f.bare_n = true
            } else {
                f.bare_h = true
            }
        }
        if ka == VK::B && kb != VK::B {
            bdeg[b] += 1;
        }
        if kb == VK::B && ka != VK::B {
            bdeg[a] += 1;
        }
        let (ra, rb) = (find(&mut parent, a), find(&mut parent, b));
        if ra != rb {
            parent[ra] = rb;
        }
    }
    let mut roots = std::collections::BTreeSet::new();
    for i in 0..n {
        let r = find(&mut parent, i);
        roots.insert(r);
        if d.verts[i].kind == VK::X {
            f.x_spider = true;
        }
        if d.verts[i].kind != VK::B && deg[i] == 0 {
            f.isolated = true;
        }
        if bdeg[i] >= 2 {
            f.multi_boundary_spider = true;
        }
    }
    f.disconnected = roots.len() >= 2;
    f
}

struct Acc {
    verts: Vec<DV>,
    edges: Vec<(usize, usize, EK)>,
    bnds: Vec<usize>,
}

impl Acc {
    fn spider(&mut self, kind: VK, ph: (i64, i64)) -> usize {
        self.verts.push(DV { kind, ph, vars: vec![] });
        self.verts.len() - 1
    }
    fn boundary(&mut self) -> usize {
        self.verts.push(DV { kind: VK::B, ph: (0, 1), vars: vec![] });
        let b = self.verts.len() - 1;
        self.bnds.push(b);
        b
    }
    fn edge(&mut self, a: usize, b: usize, k: EK) {
        self.edges.push((a.min(b), a.max(b), k));
    }
}

fn ek(r: &mut Rng) -> EK {
    if r.chance(0.5) {
        EK::H
    } else {
        EK::N
    }
}

fn kind(r: &mut Rng, x_prob: f64) -> VK {
    if r.chance(x_prob) {
        VK::X
    } else {
        VK::Z
    }
}

/// `max_bnd` caps the number of boundaries (tensor has 2^boundaries entries).
pub fn gen_shapes(r: &mut Rng, pool: PhasePool, max_bnd: usize) -> DDesc {
    let mut a = Acc { verts: vec![], edges: vec![], bnds: vec![] };
    let ncomp = 1 + r.below(4);
    let x_prob: f64 = *r.pick(&[0.0, 0.4, 1.0]);
    let want_closed = r.chance(0.2);
    for _ in 0..ncomp {
        let room = max_bnd.saturating_sub(a.bnds.len());
        match r.below(6) {
            // bare wire
            0 if room >= 2 && !want_closed => {
                let b1 = a.boundary();
                let b2 = a.boundary();
                let k = ek(r);
                a.edge(b1, b2, k);
            }
            // isolated spider
            1 => {
                let ph = if r.chance(0.3) { (r.range(0, 1), 1) } else { gen_phase(r, pool) };
                let k = kind(r, x_prob.max(0.3));
                a.spider(k, ph);
            }
            // star: one spider with several boundaries
            2 if room >= 2 && !want_closed => {
                let k = kind(r, x_prob);
                let s = a.spider(k, gen_phase(r, pool));
                let nb = 2 + r.below(room.min(4) - 1);
                for _ in 0..nb {
                    let b = a.boundary();
                    let e = ek(r);
                    a.edge(s, b, e);
                }
            }
            // chain / small blob of spiders with 0..2 boundaries
            3 | 4 => {
                let ns = 1 + r.below(4);
                let base = a.verts.len();
                for _ in 0..ns {
                    let k = kind(r, x_prob);
                    a.spider(k, gen_phase(r, pool));
                }
                for i in 0..ns {
                    for j in (i + 1)..ns {
                        if j == i + 1 || r.chance(0.3) {
                            let e = ek(r);
                            a.edge(base + i, base + j, e);
                        }
                    }
                }
                if !want_closed {
                    let nb = r.below(room.min(2) + 1);
                    for _ in 0..nb {
                        let b = a.boundary();
                        let s = base + r.below(ns);
                        let e = ek(r);
                        a.edge(s, b, e);
                    }
                }
            }
            // a generic random sub-diagram from the shared generator
            _ => {
                let p = DiagParams {
                    max_spiders: 4,
                    max_bnd: if want_closed { 0 } else { room.min(3) },
                    pool,
                    graph_like: false,
                    bare_wires: true,
                    var_prob: 0.0,
                };
                let d = gen_random(r, &p);
                let base = a.verts.len();
                a.verts.extend(d.verts.iter().cloned());
                for &(x, y, k) in &d.edges {
                    a.edges.push((base + x, base + y, k));
                }
                for &b in d.inputs.iter().chain(d.outputs.iter()) {
                    a.bnds.push(base + b);
                }
            }
        }
    }
    let mut bnds = a.bnds.clone();
    r.shuffle(&mut bnds);
    let cut = if bnds.is_empty() { 0 } else { r.below(bnds.len() + 1) };
    let scalar = if r.chance(0.5) { DScalar { coeffs: [1, 0, 0, 0], pow: 0 } } else { gen_scalar(r) };
    DDesc { verts: a.verts, edges: a.edges, inputs: bnds[..cut].to_vec(), outputs: bnds[cut..].to_vec(), scalar }
}

// ---------------------------------------------------------------------------------------
// witness minimisation on descriptions
// ---------------------------------------------------------------------------------------

/// Remove vertex `i` (and its edges; a boundary neighbour of a removed spider is removed
/// too, and so is the other end of a bare wire) keeping the description well-formed.
pub fn remove_vertex(d: &DDesc, i: usize) -> DDesc {
    let mut dead = vec![false; d.verts.len()];
    dead[i] = true;
    for &(a, b, _) in &d.edges {
        let other = if a == i {
            Some(b)
        } else if b == i {
            Some(a)
        } else {
            None
        };
        if let Some(o) = other {
            if d.verts[o].kind == VK::B {
                dead[o] = true;
            }
        }
    }
    let mut map = vec![usize::MAX; d.verts.len()];
    let mut verts = vec![];
    for (j, dv) in d.verts.iter().enumerate() {
        if !dead[j] {
            map[j] = verts.len();
            verts.push(dv.clone());
        }
    }
    let edges = d.edges.iter().filter(|e| !dead[e.0] && !dead[e.1]).map(|e| (map[e.0], map[e.1], e.2)).collect();
    let inputs = d.inputs.iter().filter(|&&b| !dead[b]).map(|&b| map[b]).collect();
    let outputs = d.outputs.iter().filter(|&&b| !dead[b]).map(|&b| map[b]).collect();
    DDesc { verts, edges, inputs, outputs, scalar: d.scalar.clone() }
}

/// Greedy 1-minimisation: repeatedly drop a vertex / a spider-spider edge / a phase / the
/// scalar while `fails` still holds.
pub fn minimise(d: &DDesc, fails: &dyn Fn(&DDesc) -> bool) -> DDesc {
    let mut cur = d.clone();
    let mut progress = true;
    let mut rounds = 0;
    while progress && rounds < 200 {
        progress = false;
        rounds += 1;
        for i in 0..cur.verts.len() {
            let cand = remove_vertex(&cur, i);
            if cand.verts.len() < cur.verts.len() && fails(&cand) {
                cur = cand;
                progress = true;
                break;
            }
        }
        if progress {
            continue;
        }
        for k in 0..cur.edges.len() {
            let (a, b, _) = cur.edges[k];
            if cur.verts[a].kind == VK::B || cur.verts[b].kind == VK::B {
                continue;
            }
            let mut cand = cur.clone();
            cand.edges.remove(k);
            if fails(&cand) {
                cur = cand;
                progress = true;
                break;
            }
        }
        if progress {
            continue;
        }
        for i in 0..cur.verts.len() {
            if cur.verts[i].kind != VK::B && cur.verts[i].ph != (0, 1) {
                let mut cand = cur.clone();
                cand.verts[i].ph = (0, 1);
                if fails(&cand) {
                    cur = cand;
                    progress = true;
                    break;
                }
            }
        }
        if progress {
            continue;
        }
        let one = DScalar { coeffs: [1, 0, 0, 0], pow: 0 };
        if cur.scalar != one {
            let mut cand = cur.clone();
            cand.scalar = one;
            if fails(&cand) {
                cur = cand;
                progress = true;
            }
        }
    }
    cur
}

//! Own PRNG (xoshiro256** seeded through splitmix64) so that workloads do not depend on
//! the `rand` version pinned by quizx.

#[derive(Clone, Debug)]
pub struct Rng {
    s: [u64; 4],
}

pub fn splitmix64(x: &mut u64) -> u64 {
    *x = x.wrapping_add(0x9E3779B97F4A7C15);
    let mut z = *x;
    z = (z ^ (z >> 30)).wrapping_mul(0xBF58476D1CE4E5B9);
    z = (z ^ (z >> 27)).wrapping_mul(0x94D049BB133111EB);
    z ^ (z >> 31)
}

pub fn hash_str(s: &str) -> u64 {
    // FNV-1a
    let mut h: u64 = 0xcbf29ce484222325;
    for b in s.bytes() {
        h ^= b as u64;
        h = h.wrapping_mul(0x100000001b3);
    }
    h
}

pub fn hash_bytes(bs: &[u8]) -> u64 {
    let mut h: u64 = 0xcbf29ce484222325;
    for &b in bs {
        h ^= b as u64;
        h = h.wrapping_mul(0x100000001b3);
    }
    h
}

impl Rng {
    pub fn new(seed: u64) -> Rng {
        let mut x = seed;
        let s = [splitmix64(&mut x), splitmix64(&mut x), splitmix64(&mut x), splitmix64(&mut x)];
        Rng { s }
    }
    /// Deterministic per-case generator: depends only on (seed, property, family, index).
    pub fn for_case(seed: u64, prop: &str, family: &str, index: u64) -> Rng {
        let mut x = seed ^ hash_str(prop).rotate_left(17) ^ hash_str(family).rotate_left(41);
        let a = splitmix64(&mut x);
        let mut y = a ^ index.wrapping_mul(0xD6E8FEB86659FD93);
        Rng::new(splitmix64(&mut y))
    }
    pub fn next_u64(&mut self) -> u64 {
        let r = self.s[1].wrapping_mul(5).rotate_left(7).wrapping_mul(9);
        let t = self.s[1] << 17;
        self.s[2] ^= self.s[0];
        self.s[3] ^= self.s[1];
        self.s[1] ^= self.s[2];
        self.s[0] ^= self.s[3];
        self.s[2] ^= t;
        self.s[3] = self.s[3].rotate_left(45);
        r
    }
    /// uniform in 0..n (n > 0)
    pub fn below(&mut self, n: usize) -> usize {
        debug_assert!(n > 0);
        (self.next_u64() % (n as u64)) as usize
    }
    /// uniform in lo..=hi
    pub fn range(&mut self, lo: i64, hi: i64) -> i64 {
        lo + (self.next_u64() % ((hi - lo + 1) as u64)) as i64
    }
    /// log-uniform in lo..=hi (lo >= 1): sizes drawn this way land on both sides of any
    /// threshold in the range, not only of the ones a fixed list happens to bracket
    pub fn log_uniform(&mut self, lo: usize, hi: usize) -> usize {
        let (a, b) = ((lo.max(1) as f64).ln(), (hi.max(1) as f64 + 0.999).ln());
        ((a + (b - a) * self.f64()).exp() as usize).clamp(lo, hi)
    }
    pub fn f64(&mut self) -> f64 {
        (self.next_u64() >> 11) as f64 / (1u64 << 53) as f64
    }
    pub fn chance(&mut self, p: f64) -> bool {
        self.f64() < p
    }
    pub fn pick<'a, T>(&mut self, xs: &'a [T]) -> &'a T {
        &xs[self.below(xs.len())]
    }
    pub fn shuffle<T>(&mut self, xs: &mut [T]) {
        for i in (1..xs.len()).rev() {
            let j = self.below(i + 1);
            xs.swap(i, j);
        }
    }
}

//! Framework: run context, three-valued verdict bookkeeping, evidence, known findings,
//! replay files, panic capture, parallel case runner with watchdog.

use crate::gen::prng::{hash_str, Rng};
use serde_json::{json, Map, Value};
use std::collections::{BTreeMap, HashSet};
use std::panic::{catch_unwind, AssertUnwindSafe};
use std::sync::atomic::{AtomicBool, AtomicUsize, Ordering};
use std::sync::{Arc, Mutex, OnceLock};
use std::time::{Duration, Instant};

pub const VERIF_DIR: &str = "/verif";

/// Output root (evidence, replays, known findings); `QVMON_VERIF_DIR` overrides it so that
/// mutation trials on scratch copies do not touch /verif.
pub fn verif_dir() -> String {
    std::env::var("QVMON_VERIF_DIR").unwrap_or_else(|_| VERIF_DIR.to_string())
}

/// Per-process scratch directory for monitors that drive file entry points (inside the harness
/// build directory, never under /tmp); the caller removes the files it creates.
pub fn scratch_dir(tag: &str) -> String {
    let d = format!("{}/target/tmp/{tag}-{}", env!("CARGO_MANIFEST_DIR"), std::process::id());
    let _ = std::fs::create_dir_all(&d);
    d
}

#[derive(Clone, Copy, PartialEq, Eq, Debug)]
pub enum Tier {
    Quick,
    Thorough,
}

impl Tier {
    pub fn name(&self) -> &'static str {
        match self {
            Tier::Quick => "quick",
            Tier::Thorough => "thorough",
        }
    }
    /// pick by tier
    pub fn pick<T>(&self, quick: T, thorough: T) -> T {
        match self {
            Tier::Quick => quick,
            Tier::Thorough => thorough,
        }
    }
}

#[derive(Clone, Debug)]
pub struct Known {
    pub property: String,
    pub signature: String,
    pub status: String,
    pub failure: String,
}

#[derive(Clone, Debug)]
pub struct Violation {
    pub signature: String,
    pub family: String,
    pub index: u64,
    pub detail: Value,
    pub count: u64,
}

#[derive(Default)]
struct Inner {
    evaluations: u64,
    hashes: HashSet<u64>,
    counters: BTreeMap<String, u64>,
    maxima: BTreeMap<String, u64>,
    samples: Vec<Value>,
    violations: BTreeMap<String, Violation>,
    known_hits: BTreeMap<String, u64>,
    inconclusive: u64,
    inconclusive_samples: Vec<Value>,
    skipped: u64,
    families: BTreeMap<String, u64>,
    harness_errors: Vec<String>,
    extra: Map<String, Value>,
}

pub struct Ctx {
    pub prop: &'static str,
    pub tier: Tier,
    pub seed: u64,
    pub threads: usize,
    pub start: Instant,
    pub deadline: Instant,
    pub replay: Option<(String, u64)>,
    pub known: Vec<Known>,
    inner: Mutex<Inner>,
    pub rule: Mutex<String>,
    pub assumptions: Mutex<Vec<String>>,
}

static CTX: OnceLock<Ctx> = OnceLock::new();
static HANG_IS_VIOLATION: AtomicBool = AtomicBool::new(false);
/// longest wall time of a single case in this run (evidence: shows the margin of the watchdog)
static MAX_CASE_US: AtomicUsize = AtomicUsize::new(0);

/// Set once a no-termination violation has been recorded (or the process has grown beyond
/// `RSS_LIMIT_KB`): the thread of an abandoned case cannot be killed and may keep allocating,
/// so no further cases are dispatched, the families still to come are skipped, and the run goes
/// straight to its verdict (which is already decided: a violation, or - for the memory guard
/// alone - inconclusive).
static STOP_EARLY: AtomicBool = AtomicBool::new(false);
const RSS_LIMIT_KB: u64 = 24 << 20;

fn rss_kb() -> Option<u64> {
    let s = std::fs::read_to_string("/proc/self/statm").ok()?;
    let pages: u64 = s.split_whitespace().nth(1)?.parse().ok()?;
    Some(pages * 4)
}

/// Declare that, for this property, a CPU-bound hang of a case is a violation (see `Ctx::hang`).
pub fn set_hang_is_violation(on: bool) {
    HANG_IS_VIOLATION.store(on, Ordering::SeqCst);
}

pub fn ctx() -> &'static Ctx {
    CTX.get().expect("ctx not initialised")
}

static REPLAY_PATH: OnceLock<String> = OnceLock::new();

/// Remember the replay file being replayed (so that replaying never rewrites other files).
pub fn set_replay_path(p: &str) {
    let _ = REPLAY_PATH.set(p.to_string());
}

pub fn init_ctx(prop: &'static str, tier: Tier, seed: u64, replay: Option<(String, u64)>) {
    let known = load_known(prop);
    let threads = std::env::var("VERIF_THREADS")
        .ok()
        .and_then(|s| s.parse().ok())
        .unwrap_or_else(|| tier.pick(8usize, 16usize));
    let budget_s: u64 = std::env::var("VERIF_TIME_S")
        .ok()
        .and_then(|s| s.parse().ok())
        .unwrap_or_else(|| tier.pick(150u64, 2400u64));
    let start = Instant::now();
    let c = Ctx {
        prop,
        tier,
        seed,
        threads,
        start,
        deadline: start + Duration::from_secs(budget_s),
        replay,
        known,
        inner: Mutex::new(Inner::default()),
        rule: Mutex::new(String::new()),
        assumptions: Mutex::new(vec![]),
    };
    let _ = CTX.set(c);
    install_panic_hook();
}

fn load_known(prop: &str) -> Vec<Known> {
    let p = format!("{}/known_findings.json", verif_dir());
    let Ok(txt) = std::fs::read_to_string(&p) else {
        return vec![];
    };
    let Ok(v) = serde_json::from_str::<Value>(&txt) else {
        eprintln!("HARNESS-ERROR cannot parse {p}");
        std::process::exit(1);
    };
    let mut out = vec![];
    if let Some(arr) = v.get("findings").and_then(|a| a.as_array()) {
        for e in arr {
            let g = |k: &str| e.get(k).and_then(|x| x.as_str()).unwrap_or("").to_string();
            if g("property") == prop {
                out.push(Known { property: g("property"), signature: g("signature"), status: g("status"), failure: g("failure") });
            }
        }
    }
    out
}

impl Ctx {
    fn lock(&self) -> std::sync::MutexGuard<'_, Inner> {
        self.inner.lock().unwrap_or_else(|e| e.into_inner())
    }
    pub fn set_rule(&self, s: &str) {
        *self.rule.lock().unwrap() = s.to_string();
    }
    pub fn assume(&self, s: &str) {
        self.assumptions.lock().unwrap().push(s.to_string());
    }
    /// Count one evaluated case; `nontrivial` carries the case hash when the case is
    /// non-trivial by the monitor's rule.
    pub fn case(&self, family: &str, nontrivial: Option<u64>) {
        let mut i = self.lock();
        i.evaluations += 1;
        *i.families.entry(family.to_string()).or_default() += 1;
        if let Some(h) = nontrivial {
            i.hashes.insert(h);
        }
    }
    pub fn evals(&self, n: u64) {
        self.lock().evaluations += n;
    }
    pub fn distinct(&self, h: u64) {
        self.lock().hashes.insert(h);
    }
    pub fn count(&self, key: &str, n: u64) {
        *self.lock().counters.entry(key.to_string()).or_default() += n;
    }
    pub fn maximum(&self, key: &str, v: u64) {
        let mut i = self.lock();
        let e = i.maxima.entry(key.to_string()).or_default();
        if v > *e {
            *e = v;
        }
    }
    pub fn get_count(&self, key: &str) -> u64 {
        self.lock().counters.get(key).copied().unwrap_or(0)
    }
    pub fn sample(&self, v: Value) {
        let mut i = self.lock();
        if i.samples.len() < 6 {
            i.samples.push(v);
        }
    }
    pub fn sample_n(&self, cap: usize, v: impl FnOnce() -> Value) {
        let mut i = self.lock();
        if i.samples.len() < cap {
            i.samples.push(v());
        }
    }
    pub fn extra(&self, key: &str, v: Value) {
        self.lock().extra.insert(key.to_string(), v);
    }
    pub fn skipped(&self) {
        self.lock().skipped += 1;
    }
    pub fn inconclusive(&self, why: &str, detail: Value) {
        let mut i = self.lock();
        i.inconclusive += 1;
        *i.counters.entry(format!("inconclusive:{why}")).or_default() += 1;
        if i.inconclusive_samples.len() < 5 {
            i.inconclusive_samples.push(json!({"why": why, "detail": detail}));
        }
    }
    /// A case hit the wall-clock watchdog. Normally that is *inconclusive*. A monitor whose
    /// property demands termination (C01) may declare `hang_is_violation`: then a case
    /// whose worker thread demonstrably burnt >= SPIN_CPU_S CPU seconds on it (measured
    /// from /proc, i.e. on work done - a loaded or suspended machine cannot fake that) is
    /// reported as non-termination in bounded-progress form; the rewrite budget (hook H2)
    /// cannot interrupt a loop that never applies a rule.
    pub fn hang(&self, family: &str, index: u64, spun_cpu_s: Option<f64>) {
        let spinning = spun_cpu_s.map_or(false, |s| s >= SPIN_CPU_S);
        if spinning && HANG_IS_VIOLATION.load(Ordering::SeqCst) {
            STOP_EARLY.store(true, Ordering::SeqCst);
            self.extra("stopped_early", json!("a no-termination violation was recorded; the remaining cases and families were skipped because the abandoned thread cannot be stopped"));
            self.violation(
                "case|no-termination|cpu-bound-for-the-whole-watchdog-period",
                family,
                index,
                json!({"what": "the case was still computing when the watchdog fired", "watchdog_wall_s": WATCHDOG_S, "cpu_seconds_burnt_since_probe": spun_cpu_s,
                       "note": "replay regenerates the case from (seed, family, index)"}),
            );
        } else {
            self.inconclusive("watchdog", json!({"family": family, "index": index, "seconds": WATCHDOG_S, "cpu_seconds_burnt_since_probe": spun_cpu_s}));
        }
        println!("INCONCLUSIVE-OR-HANG property={} family={family} index={index} wall>{WATCHDOG_S}s cpu_since_probe={spun_cpu_s:?}", self.prop);
    }
    pub fn harness_error(&self, msg: &str) {
        self.lock().harness_errors.push(msg.to_string());
    }
    /// Record a violation. `signature` identifies the failing call site / class /
    /// discriminating condition; equal signatures are reported once.
    pub fn violation(&self, signature: &str, family: &str, index: u64, detail: Value) {
        let mut i = self.lock();
        if let Some(k) = self.known.iter().find(|k| k.status == "open" && k.signature == signature) {
            *i.known_hits.entry(k.signature.clone()).or_default() += 1;
            return;
        }
        let e = i.violations.entry(signature.to_string()).or_insert_with(|| Violation {
            signature: signature.to_string(),
            family: family.to_string(),
            index,
            detail,
            count: 0,
        });
        e.count += 1;
    }
    pub fn num_violations(&self) -> usize {
        self.lock().violations.len()
    }
    pub fn out_of_time(&self) -> bool {
        Instant::now() >= self.deadline || STOP_EARLY.load(Ordering::SeqCst)
    }

    /// Write evidence, print verdict lines, return the exit code.
    pub fn finish(&self, floor_distinct: u64) -> i32 {
        // scratch directories of this process (see `scratch_dir`)
        if let Ok(rd) = std::fs::read_dir(format!("{}/target/tmp", env!("CARGO_MANIFEST_DIR"))) {
            let suffix = format!("-{}", std::process::id());
            for e in rd.flatten() {
                if e.file_name().to_string_lossy().ends_with(&suffix) {
                    let _ = std::fs::remove_dir_all(e.path());
                }
            }
        }
        let i = self.lock();
        let wall = self.start.elapsed().as_secs_f64();
        let mut code = 0;
        // known findings (open): print one line per listed finding that was hit
        for k in self.known.iter().filter(|k| k.status == "open") {
            if let Some(n) = i.known_hits.get(&k.signature) {
                println!("KNOWN-FINDING: property={} {} {} (hit {} times)", self.prop, k.signature, k.failure, n);
            } else if self.replay.is_none() {
                println!("KNOWN-FINDING-NOT-HIT: property={} {} (listed as open but not observed in this run)", self.prop, k.signature);
            }
        }
        let replay_dir = format!("{}/replays", verif_dir());
        let _ = std::fs::create_dir_all(&replay_dir);
        let mut vio_list = vec![];
        for (sig, v) in i.violations.iter() {
            let h = hash_str(sig);
            let path = format!("{replay_dir}/{}-{:016x}.json", self.prop, h);
            if self.replay.is_some() {
                // replay mode: report against the file being replayed, write nothing
                let rp = REPLAY_PATH.get().cloned().unwrap_or(path);
                println!("VIOLATION property={} replay={}", self.prop, rp);
                println!("  signature: {sig}  (x{})", v.count);
                code = 1;
                continue;
            }
            let body = json!({
                "property": self.prop,
                "signature": sig,
                "family": v.family,
                "index": v.index,
                "seed": self.seed,
                "tier": self.tier.name(),
                "occurrences": v.count,
                "detail": v.detail,
            });
            if let Err(e) = std::fs::write(&path, serde_json::to_string_pretty(&body).unwrap()) {
                eprintln!("HARNESS-ERROR cannot write replay {path}: {e}");
            }
            println!("VIOLATION property={} replay={}", self.prop, path);
            println!("  signature: {sig}  (x{})", v.count);
            vio_list.push(json!({"signature": sig, "occurrences": v.count, "replay": path}));
            code = 1;
        }
        let distinct = i.hashes.len() as u64;
        let mut coverage = Map::new();
        coverage.insert("evaluations".into(), json!(i.evaluations));
        coverage.insert("distinct_nontrivial".into(), json!(distinct));
        coverage.insert("rule".into(), json!(self.rule.lock().unwrap().clone()));
        coverage.insert("samples".into(), Value::Array(i.samples.clone()));
        coverage.insert("families".into(), json!(i.families));
        coverage.insert("counters".into(), json!(i.counters));
        coverage.insert("maxima".into(), json!(i.maxima));
        coverage.insert("inconclusive".into(), json!(i.inconclusive));
        coverage.insert("inconclusive_samples".into(), Value::Array(i.inconclusive_samples.clone()));
        coverage.insert("skipped".into(), json!(i.skipped));
        coverage.insert("known_findings_hit".into(), json!(i.known_hits));
        coverage.insert("violation_signatures".into(), Value::Array(vio_list));
        coverage.insert("threads".into(), json!(self.threads));
        coverage.insert("max_case_wall_ms".into(), json!(MAX_CASE_US.load(Ordering::Relaxed) as f64 / 1000.0));
        coverage.insert("hang_is_violation".into(), json!(HANG_IS_VIOLATION.load(Ordering::SeqCst)));
        coverage.insert("stopped_by_time_budget".into(), json!(self.out_of_time()));
        for (k, v) in i.extra.iter() {
            coverage.insert(k.clone(), v.clone());
        }
        let ev = json!({
            "property_id": self.prop,
            "tier": self.tier.name(),
            "seed": self.seed,
            "level": "exploration",
            "coverage": Value::Object(coverage),
            "assumptions": self.assumptions.lock().unwrap().clone(),
            "wall_s": wall,
            "violations": i.violations.len(),
        });
        if self.replay.is_none() {
            let path = format!("{}/evidence/{}.json", verif_dir(), self.prop);
            let _ = std::fs::create_dir_all(format!("{}/evidence", verif_dir()));
            if let Err(e) = std::fs::write(&path, serde_json::to_string_pretty(&ev).unwrap()) {
                println!("HARNESS-ERROR cannot write evidence {path}: {e}");
                return 1;
            }
        }
        for e in &i.harness_errors {
            println!("HARNESS-ERROR {e}");
            code = 1;
        }
        println!(
            "{} {} seed={} evaluations={} distinct_nontrivial={} inconclusive={} skipped={} violations={} known_hit={} wall={:.1}s",
            self.prop,
            self.tier.name(),
            self.seed,
            i.evaluations,
            distinct,
            i.inconclusive,
            i.skipped,
            i.violations.len(),
            i.known_hits.len(),
            wall
        );
        if self.replay.is_none() && code == 0 && distinct < floor_distinct {
            println!(
                "HARNESS-ERROR coverage-floor: only {distinct} distinct non-trivial cases observed (floor {floor_distinct}); nothing can be concluded"
            );
            code = 1;
        }
        code
    }
}

// ------------------------------------------------------------------------------------
// panic capture
// ------------------------------------------------------------------------------------

thread_local! {
    static LAST_PANIC: std::cell::RefCell<Option<String>> = const { std::cell::RefCell::new(None) };
}

fn install_panic_hook() {
    std::panic::set_hook(Box::new(|info| {
        let loc = info.location().map(|l| format!("{}:{}", l.file(), l.line())).unwrap_or_default();
        let msg = if let Some(s) = info.payload().downcast_ref::<&str>() {
            s.to_string()
        } else if let Some(s) = info.payload().downcast_ref::<String>() {
            s.clone()
        } else if info.payload().downcast_ref::<quizx::verif::BudgetExceeded>().is_some() {
            "BudgetExceeded".to_string()
        } else {
            "<non-string panic>".to_string()
        };
        LAST_PANIC.with(|p| *p.borrow_mut() = Some(format!("{msg} @ {loc}")));
    }));
}

#[derive(Debug, Clone)]
pub enum Caught {
    Panic { msg: String, loc: String },
    Budget(String),
    /// a panic raised by the oracle itself (overflow etc.) -- never a verdict
    Oracle(String),
}

impl Caught {
    pub fn text(&self) -> String {
        match self {
            Caught::Panic { msg, loc } => format!("{msg} @ {loc}"),
            Caught::Budget(r) => format!("rewrite budget exceeded in {r}"),
            Caught::Oracle(m) => format!("oracle: {m}"),
        }
    }
    /// short location-independent-of-line class for signatures: file of the panic
    pub fn site(&self) -> String {
        match self {
            Caught::Panic { loc, msg } => {
                let file = loc.rsplit('/').next().unwrap_or(loc);
                let file = file.split(':').next().unwrap_or(file);
                let m: String = msg.chars().filter(|c| !c.is_ascii_digit()).take(40).collect();
                format!("{file}:{}", m.trim())
            }
            Caught::Budget(r) => format!("budget:{r}"),
            Caught::Oracle(_) => "oracle".into(),
        }
    }
}

/// Run code under test; a panic becomes data.
pub fn guarded<T>(f: impl FnOnce() -> T) -> Result<T, Caught> {
    LAST_PANIC.with(|p| *p.borrow_mut() = None);
    match catch_unwind(AssertUnwindSafe(f)) {
        Ok(v) => Ok(v),
        Err(payload) => {
            if let Some(b) = payload.downcast_ref::<quizx::verif::BudgetExceeded>() {
                return Err(Caught::Budget(b.0.to_string()));
            }
            let full = LAST_PANIC.with(|p| p.borrow_mut().take()).unwrap_or_else(|| "<unknown panic>".into());
            let (msg, loc) = match full.rsplit_once(" @ ") {
                Some((m, l)) => (m.to_string(), l.to_string()),
                None => (full.clone(), String::new()),
            };
            if loc.contains("harness/src/oracle") || loc.contains("harness/src/gen") || msg.contains("oracle overflow") {
                Err(Caught::Oracle(format!("{msg} @ {loc}")))
            } else {
                Err(Caught::Panic { msg, loc })
            }
        }
    }
}

// ------------------------------------------------------------------------------------
// parallel case runner with watchdog
// ------------------------------------------------------------------------------------

/// Per-case wall-clock watchdog; firing is *inconclusive*, never a violation - with one
/// exception that is decided on work done, not on wall-clock time: see `Ctx::hang`.
pub const WATCHDOG_S: u64 = 120;
/// when a case has been running this long the supervisor samples the worker's CPU time
pub const PROBE_AFTER_S: u64 = 5;
/// a case whose thread burnt at least this many CPU seconds between probe and watchdog was
/// computing all along (not blocked, not descheduled, not suspended)
pub const SPIN_CPU_S: f64 = 60.0;

/// Crash journal: when `QVMON_JOURNAL` names a file, every case is announced there (one
/// unbuffered append per case) before it starts. `./check` switches this on only after a
/// run died from a signal (stack overflow, abort), to find the case that kills the process:
/// catch_unwind cannot turn those into data.
fn journal(family: &str, index: u64) {
    use std::io::Write;
    static J: OnceLock<Option<Mutex<std::fs::File>>> = OnceLock::new();
    let j = J.get_or_init(|| std::env::var("QVMON_JOURNAL").ok().and_then(|p| std::fs::OpenOptions::new().create(true).append(true).open(p).ok()).map(Mutex::new));
    if let Some(f) = j {
        let _ = f.lock().unwrap_or_else(|e| e.into_inner()).write_all(format!("{family} {index}\n").as_bytes());
    }
    // self-test of the abort supervisor in ./check: QVMON_TEST_ABORT="<family> <index>"
    // makes exactly that case kill the process
    if let Ok(t) = std::env::var("QVMON_TEST_ABORT") {
        if t == format!("{family} {index}") {
            std::process::abort();
        }
    }
}

fn current_tid() -> usize {
    std::fs::read_link("/proc/thread-self")
        .ok()
        .and_then(|p| p.file_name().map(|f| f.to_string_lossy().to_string()))
        .and_then(|s| s.parse().ok())
        .unwrap_or(0)
}

/// user+system CPU time of a thread of this process, from /proc/self/task/<tid>/stat
fn thread_cpu_seconds(tid: usize) -> Option<f64> {
    if tid == 0 {
        return None;
    }
    let s = std::fs::read_to_string(format!("/proc/self/task/{tid}/stat")).ok()?;
    // fields after the parenthesised command name; utime and stime are fields 14 and 15
    let rest = &s[s.rfind(')')? + 2..];
    let f: Vec<&str> = rest.split_whitespace().collect();
    let ut: f64 = f.get(11)?.parse().ok()?;
    let st: f64 = f.get(12)?.parse().ok()?;
    Some((ut + st) / 100.0)
}

/// Run cases `0..n` of a family on the worker pool. Each case gets a PRNG that depends
/// only on (seed, property, family, index). Panics escaping `f` are harness errors.
pub fn par_cases<F>(family: &'static str, n: usize, f: F)
where
    F: Fn(&mut Rng, u64) + Send + Sync + 'static,
{
    let c = ctx();
    if let Some((fam, idx)) = &c.replay {
        if fam != family {
            return;
        }
        journal(family, *idx);
        let mut rng = Rng::for_case(c.seed, c.prop, family, *idx);
        if let Err(e) = guarded(|| f(&mut rng, *idx)) {
            c.harness_error(&format!("monitor panicked in replay {family}#{idx}: {}", e.text()));
        }
        return;
    }
    let f = Arc::new(f);
    let next = Arc::new(AtomicUsize::new(0));
    let nthreads = c.threads.min(n.max(1));
    struct W {
        cur: Mutex<Option<(u64, Instant)>>,
        done: AtomicBool,
        abandoned: AtomicBool,
        /// kernel thread id of the worker (for reading its CPU time from /proc)
        tid: AtomicUsize,
        /// (case index, wall instant, thread CPU seconds) sampled by the supervisor once a
        /// case has been running for a while
        probe: Mutex<Option<(u64, Instant, f64)>>,
    }
    let ws: Vec<Arc<W>> = (0..nthreads)
        .map(|_| Arc::new(W { cur: Mutex::new(None), done: AtomicBool::new(false), abandoned: AtomicBool::new(false), tid: AtomicUsize::new(0), probe: Mutex::new(None) }))
        .collect();
    for w in ws.iter() {
        let w = w.clone();
        let f = f.clone();
        let next = next.clone();
        std::thread::Builder::new()
            .stack_size(64 << 20)
            .spawn(move || {
                let c = ctx();
                w.tid.store(current_tid(), Ordering::SeqCst);
                loop {
                    if c.out_of_time() {
                        break;
                    }
                    let i = next.fetch_add(1, Ordering::SeqCst);
                    if i >= n {
                        break;
                    }
                    *w.cur.lock().unwrap() = Some((i as u64, Instant::now()));
                    journal(family, i as u64);
                    let mut rng = Rng::for_case(c.seed, c.prop, family, i as u64);
                    let t_case = Instant::now();
                    let res = guarded(|| f(&mut rng, i as u64));
                    MAX_CASE_US.fetch_max(t_case.elapsed().as_micros() as usize, Ordering::Relaxed);
                    if let Err(e) = res {
                        match e {
                            Caught::Oracle(m) => c.inconclusive("oracle-error", json!({"family": family, "index": i, "msg": m})),
                            other => c.harness_error(&format!("monitor panicked in {family}#{i}: {}", other.text())),
                        }
                    }
                    *w.cur.lock().unwrap() = None;
                    if w.abandoned.load(Ordering::SeqCst) {
                        // we were declared stuck but finished after all; stop quietly
                        break;
                    }
                }
                w.done.store(true, Ordering::SeqCst);
            })
            .expect("spawn worker");
    }
    let mut ticks = 0u64;
    loop {
        std::thread::sleep(Duration::from_millis(20));
        ticks += 1;
        if ticks % 50 == 0 && !STOP_EARLY.load(Ordering::SeqCst) {
            if let Some(kb) = rss_kb() {
                if kb > RSS_LIMIT_KB {
                    STOP_EARLY.store(true, Ordering::SeqCst);
                    c.inconclusive("memory-guard", json!({"family": family, "rss_kb": kb, "limit_kb": RSS_LIMIT_KB, "what": "the monitor process grew beyond the guard; no further cases are dispatched"}));
                    println!("MEMORY-GUARD property={} family={family} rss_kb={kb}", c.prop);
                }
            }
        }
        let mut all = true;
        for w in ws.iter() {
            if w.done.load(Ordering::SeqCst) || w.abandoned.load(Ordering::SeqCst) {
                continue;
            }
            all = false;
            let cur = *w.cur.lock().unwrap();
            if let Some((i, t0)) = cur {
                let tid = w.tid.load(Ordering::SeqCst);
                if t0.elapsed() > Duration::from_secs(PROBE_AFTER_S) {
                    let mut p = w.probe.lock().unwrap();
                    if p.map_or(true, |(pi, _, _)| pi != i) {
                        *p = thread_cpu_seconds(tid).map(|cpu| (i, Instant::now(), cpu));
                    }
                }
                if t0.elapsed() > Duration::from_secs(WATCHDOG_S) {
                    w.abandoned.store(true, Ordering::SeqCst);
                    // how much CPU did this thread burn on the case since the probe?
                    let spun = match (*w.probe.lock().unwrap(), thread_cpu_seconds(tid)) {
                        (Some((pi, _, cpu0)), Some(cpu1)) if pi == i => Some(cpu1 - cpu0),
                        _ => None,
                    };
                    c.hang(family, i, spun);
                }
            }
        }
        if all {
            break;
        }
    }
}

/// Exhaustive sequential enumeration helper with the same accounting (runs on the pool by
/// chunking `0..n`; the closure receives the global index).
pub fn par_enum<F>(family: &'static str, n: usize, f: F)
where
    F: Fn(u64) + Send + Sync + 'static,
{
    par_cases(family, n, move |_rng, i| f(i));
}

pub fn json_str(v: &impl std::fmt::Debug) -> Value {
    Value::String(format!("{v:?}"))
}

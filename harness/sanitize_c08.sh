#!/bin/bash
# Sanitizer layer for C08 (thorough tier): runs the miniature workload src/bin/miri_c08.rs
# under Miri (Tree Borrows; see DESIGN.md section 8 for why these flags) and prints ONE
# line of JSON on stdout:
#   {"ran": <cases executed>, "ub_reports": <n>, "seconds": <wall>, ...}
# or, when Miri could not be run to completion,
#   {"ran": 0, "ub_reports": 0, "seconds": <wall>, "inconclusive": true, "reason": "..."}
# The full Miri log is kept in /verif/harness/target-miri/miri_c08.log.
set -u
cd "$(dirname "$0")" || exit 1
export MIRIFLAGS="${MIRIFLAGS:--Zmiri-tree-borrows -Zmiri-ignore-leaks -Zmiri-disable-isolation}"
export CARGO_TARGET_DIR="${CARGO_TARGET_DIR_MIRI:-/verif/harness/target-miri}"
# a small pool keeps the interpreter fast while par_azip! still runs on several threads
export RAYON_NUM_THREADS="${RAYON_NUM_THREADS:-4}"
BUDGET_S="${MIRI_C08_BUDGET_S:-1500}"
mkdir -p "$CARGO_TARGET_DIR"
log="$CARGO_TARGET_DIR/miri_c08.log"
start=$(date +%s)

json_escape() { python3 -c 'import json,sys; print(json.dumps(sys.stdin.read()[-600:]))'; }

inconclusive() {
    local secs=$(( $(date +%s) - start ))
    local reason
    reason=$(printf '%s' "$1" | json_escape)
    echo "{\"ran\": 0, \"ub_reports\": 0, \"seconds\": $secs, \"inconclusive\": true, \"reason\": $reason}"
    exit 0
}

if ! cargo +nightly miri --version >/dev/null 2>&1; then
    inconclusive "cargo +nightly miri is not installed"
fi

timeout "$BUDGET_S" cargo +nightly miri run --offline --bin miri_c08 >"$log" 2>&1
rc=$?
secs=$(( $(date +%s) - start ))

if [ $rc -eq 124 ]; then
    inconclusive "Miri run exceeded the ${BUDGET_S}s budget"
fi

summary=$(grep -E '^MIRI_C08 ran=' "$log" | tail -1)
ub=$(grep -c -E 'Undefined Behavior' "$log")   # Miri reports data races as "Undefined Behavior: Data race detected"
unsupported=$(grep -m1 -E 'error: unsupported operation' "$log")
if [ -n "$unsupported" ] && [ "$ub" -eq 0 ]; then
    inconclusive "Miri stopped at an operation it does not support: $unsupported"
fi

if [ -z "$summary" ] && [ "$ub" -eq 0 ]; then
    # neither a completed run nor a Miri diagnosis: build failure or similar
    inconclusive "no summary line from miri_c08 (exit code $rc): $(tail -5 "$log")"
fi

get() { echo "$summary" | sed -n "s/.* $1=\([0-9]*\).*/\1/p"; }
ran=$(get ran); ran=${ran:-0}
mism=$(get mismatches); mism=${mism:-0}
exp_p=$(get expected_panics); exp_p=${exp_p:-0}
unexp_p=$(get unexpected_panics); unexp_p=${unexp_p:-0}
first_ub=$(grep -m1 -A3 -E 'Undefined Behavior' "$log" | json_escape)
echo "{\"ran\": $ran, \"ub_reports\": $ub, \"seconds\": $secs, \"mismatches\": $mism, \"expected_panics\": $exp_p, \"unexpected_panics\": $unexp_p, \"exit_code\": $rc, \"rayon_threads\": $RAYON_NUM_THREADS, \"miriflags\": \"$MIRIFLAGS\", \"first_report\": $first_ub}"

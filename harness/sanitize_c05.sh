#!/bin/bash
# Sanitizer layer for property C05 (thorough tier only; DESIGN.md section 8).
#
#   sanitize_c05.sh [summary.json]
#
# Runs (1) miri_c05 under Miri with Tree Borrows on 8 scheduler seeds and (2) tsan_c05 under
# ThreadSanitizer, and writes a JSON summary {"miri": {...}, "tsan": {...}} with
# status = clean | violation | inconclusive for each tool. A report located in a quizx
# frame (or a result mismatch under the sanitizer) is a violation; a report wholly inside
# a dependency, a build failure, a timeout or a non-functional sanitizer is inconclusive.
# The script itself always exits 0; the monitor (src/mon/c05.rs) interprets the summary.
set -u
CRATE="${C05_CRATE_DIR:-/verif/harness}"
OUT="${1:-/verif/harness/target/sanitize_c05.json}"
LOGDIR="${C05_LOG_DIR:-/verif/harness/target}"
MIRI_TARGET=/verif/harness/target-miri
TSAN_TARGET=/verif/harness/target-tsan
SEEDS="${C05_MIRI_SEEDS:-0..8}"
NSEEDS="${C05_MIRI_NSEEDS:-8}"
TSAN_N="${C05_TSAN_N:-2000}"
export CARGO_NET_OFFLINE=true
mkdir -p "$LOGDIR" "$(dirname "$OUT")"
cd "$CRATE" || { echo '{"miri":{"status":"inconclusive","reason":"no crate dir"},"tsan":{"status":"inconclusive","reason":"no crate dir"}}' > "$OUT"; exit 0; }

jstr() { # JSON string escape of stdin (single line)
  tr '\n\t' '  ' | sed -e 's/\\/\\\\/g' -e 's/"/\\"/g' | cut -c1-600
}

# ------------------------------------------------------------------------------ Miri
MLOG="$LOGDIR/miri_c05.log"
t0=$(date +%s)
MIRIFLAGS="-Zmiri-tree-borrows -Zmiri-ignore-leaks -Zmiri-disable-isolation -Zmiri-many-seeds=$SEEDS" \
  CARGO_TARGET_DIR="$MIRI_TARGET" timeout 2700 cargo +nightly miri run --offline --bin miri_c05 >"$MLOG" 2>&1
mrc=$?
mwall=$(( $(date +%s) - t0 ))
mok=$(grep -c '^MIRI_C05 OK' "$MLOG")
if grep -q '^MIRI_C05 MISMATCH' "$MLOG"; then
  mstatus=violation; mclass=result-mismatch-under-miri
  mreason=$(grep -m1 '^MIRI_C05 MISMATCH' "$MLOG" | jstr)
elif grep -q 'error: Undefined Behavior' "$MLOG"; then
  # the location of the report is the first "-->" line after the error line
  loc=$(awk '/error: Undefined Behavior/{f=1} f && /-->/{print; exit}' "$MLOG")
  mreason=$( (grep -m1 'error: Undefined Behavior' "$MLOG"; echo "$loc") | jstr)
  if echo "$loc" | grep -q 'quizx/src'; then
    mstatus=violation; mclass=miri-report-in-quizx-frame
  else
    mstatus=inconclusive; mclass=external-report
  fi
elif [ "$mrc" -eq 0 ] && [ "$mok" -ge "$NSEEDS" ]; then
  mstatus=clean; mclass=none; mreason=""
elif [ "$mrc" -eq 124 ]; then
  mstatus=inconclusive; mclass=timeout; mreason="miri run exceeded 2700 s"
else
  mstatus=inconclusive; mclass=could-not-run
  mreason=$( (echo "exit code $mrc;"; grep -m3 -E '^error' "$MLOG"; tail -n 3 "$MLOG") | jstr)
fi
MIRI_JSON="{\"status\":\"$mstatus\",\"class\":\"$mclass\",\"reason\":\"$mreason\",\"seeds\":\"$SEEDS\",\"seeds_ok\":$mok,\"borrow_model\":\"tree-borrows\",\"wall_s\":$mwall,\"log\":\"$MLOG\"}"

# ------------------------------------------------------------------------------ TSan
TLOG="$LOGDIR/tsan_c05.log"
TBUILD="$LOGDIR/tsan_c05.build.log"
t0=$(date +%s)
RUSTFLAGS=-Zsanitizer=thread CARGO_TARGET_DIR="$TSAN_TARGET" timeout 2700 \
  cargo +nightly build -Zbuild-std --target x86_64-unknown-linux-gnu --release --offline --bin tsan_c05 >"$TBUILD" 2>&1
brc=$?
BIN="$TSAN_TARGET/x86_64-unknown-linux-gnu/release/tsan_c05"
treports=0; tquizx=0; truns=0; tcanary=0
if [ "$brc" -ne 0 ] || [ ! -x "$BIN" ]; then
  tstatus=inconclusive; tclass=could-not-build
  treason=$( (echo "build exit code $brc;"; grep -m3 -E '^error' "$TBUILD"; tail -n 2 "$TBUILD") | jstr)
else
  # canary: a deliberate race must be reported, otherwise the sanitizer is not functional here
  tcanary=$(TSAN_OPTIONS="halt_on_error=0 exitcode=0" "$BIN" --canary 2>&1 | grep -c 'WARNING: ThreadSanitizer: data race')
  TSAN_OPTIONS="halt_on_error=0 exitcode=0 report_signal_unsafe=0 history_size=4" timeout 2700 "$BIN" "$TSAN_N" 1 >"$TLOG.out" 2>"$TLOG"
  trc=$?
  cat "$TLOG.out" >> "$TLOG"
  treports=$(grep -c 'WARNING: ThreadSanitizer' "$TLOG")
  # a report block runs from its WARNING line to the following SUMMARY line; it is
  # attributed to quizx when one of the two innermost frames (#0/#1: the racing access
  # itself, allowing for an interceptor such as memcpy on top) of any of its stacks is a
  # quizx function or file. quizx frames further out are only the callers of the
  # dependency in which the report lies.
  tquizx=$(awk '/WARNING: ThreadSanitizer/{blk=1; hit=0} blk && /^ *#[01] / && (/quizx::/ || /quizx\/src\//){hit=1} /SUMMARY: ThreadSanitizer/{if (blk && hit) n++; blk=0} END{print n+0}' "$TLOG")
  truns=$(grep -m1 -o 'runs=[0-9]*' "$TLOG.out" | cut -d= -f2); truns=${truns:-0}
  if grep -q '^TSAN_C05 MISMATCH' "$TLOG.out"; then
    tstatus=violation; tclass=result-mismatch-under-tsan
    treason=$(grep -m1 '^TSAN_C05 MISMATCH' "$TLOG.out" | jstr)
  elif [ "$tquizx" -gt 0 ]; then
    tstatus=violation; tclass=tsan-report-in-quizx-frame
    treason=$(awk '/WARNING: ThreadSanitizer/{blk=1; hit=0; buf=""} blk{buf=buf $0 " | "} blk && /^ *#[01] / && (/quizx::/ || /quizx\/src\//){hit=1} /SUMMARY: ThreadSanitizer/{if (blk && hit) {print buf; exit} blk=0}' "$TLOG" | jstr)
  elif [ "$treports" -gt 0 ]; then
    tstatus=inconclusive; tclass=external-report
    treason=$(grep -m1 'SUMMARY: ThreadSanitizer' "$TLOG" | jstr)
  elif [ "$tcanary" -lt 1 ]; then
    tstatus=inconclusive; tclass=sanitizer-not-functional
    treason="the deliberate race of 'tsan_c05 --canary' was not reported"
  elif [ "$trc" -ne 0 ] || ! grep -q '^TSAN_C05 OK' "$TLOG.out"; then
    tstatus=inconclusive; tclass=could-not-run
    treason=$( (echo "exit code $trc;"; tail -n 3 "$TLOG") | jstr)
  else
    tstatus=clean; tclass=none; treason=""
  fi
fi
twall=$(( $(date +%s) - t0 ))
TSAN_JSON="{\"status\":\"$tstatus\",\"class\":\"$tclass\",\"reason\":\"$treason\",\"decomposer_runs\":$truns,\"pool_threads\":16,\"reports_total\":$treports,\"reports_in_quizx_frames\":$tquizx,\"canary_reports\":$tcanary,\"wall_s\":$twall,\"log\":\"$TLOG\"}"

echo "{\"miri\":$MIRI_JSON,\"tsan\":$TSAN_JSON}" > "$OUT"
cat "$OUT"
exit 0
